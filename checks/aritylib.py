"""The arity-indexed families of one typeclass as a sub-run of that typeclass's check (the full sweep is C14's)."""
import json


def family_subrun(c, prop, families):
    """run every member of the arity harness, keep the events of `families`, let TLC (TraceArity) judge the wiring"""
    summary, out = c.harness("arity", [], name="arity-" + prop.lower())
    keep = out + ".sel"
    n = 0
    with open(keep, "w") as fh:
        for line in open(out):
            if json.loads(line)["fam"] in families:
                fh.write(line)
                n += 1
    c.cov["evaluations"] += n
    c.extra["arity_members_of_this_typeclass"] = n
    for rej in c.validate(keep, "TraceArity", max_rejects=10):
        ev = rej["line"]
        c.report("%s:arity:%s%d" % (prop, ev["fam"], ev["n"]), dict(kind="arity", member=ev),
                 "member %s%d: observed wiring %s with %d calls differs from its defining equation (Arity.tla)" % (ev["fam"], ev["n"], ev["w"], ev["calls"]))
