"""C01 - monad / functor / applicative laws and coherence of derived combinators.

(A) TLC (MCEffect): left identity, right identity, associativity and Map = FlatMap(unit . f) for U/FM over the whole
    value space and all continuation tables; every derived combinator defined BY ITS EQUATION in U and FM (Map, Flatten,
    Map2, Ap, Zip, MapN/LiftAN/Sequence, Kleisli composition, Traverse, FoldM) equals the independent first-failure
    oracle on every argument tuple (891 648 tuples).  SeqSpec / StateTSpec / EvalSpec carry the same laws for Seq, List,
    Iterator, StateT and lazy.Eval (C12, C17, C16).
(B) TLC exports a space of semantic programs; the harness runs each with EVERY library function of fitting kind and
    arity (Map/Lift/Method/With/Ap/Zip/MapN/LiftAN/FlatMapN/LiftMN/Sequence/FlatMap/LiftM/Flatten/Compose*/Traverse*/
    FoldM/ApFunc/ApplicativeN/ChainN/Recover*/Or*) in try, option and either.
(C) seeded random nested programs, arities up to 9.  Termination is part of the property: a combinator that recurses
    without bound kills the process; the crash is attributed to the running case and reported.
    Every run logs result and callback order; TLC (TraceEffect) accepts only what EffectSpec!Eval prescribes.
"""
import json
import random

import efflib


def run(c):
    if c.replay:
        rp = json.load(open(c.replay))
        if rp.get("kind") == "unitnil":
            _, uout = c.harness("unitnil", [], name="replay-unitnil")
            for rej in c.validate(uout, "TraceEffect", max_rejects=6):
                ev = rej["line"]
                c.report("C01:unit-nil:%s:%s" % (ev["monad"], ev["fn"]), dict(kind="unitnil", observed=ev), "replayed: %s" % json.dumps(ev)[:300])
            return
        out = efflib.run_and_judge(c, "C01", [rp["case"]], "replay")
        return
    rng = random.Random(c.seed)
    c.tlc_expect_clean("MCEffect", "MCEffect", timeout=2400)
    progs = efflib.export_programs(c)
    c.extra["tlc_exported_programs"] = len(progs)
    monads = ["option", "either", "try"]
    for m in monads:
        cases = [dict(kind="expand", monad=m, seed=rng.getrandbits(30), prog=p) for p in progs if p["k"] != "panic"]
        cases.append(dict(kind="gen", monad=m, seed=rng.getrandbits(40), count=6000 if c.thorough else 1500, depth=4))
        out = efflib.run_and_judge(c, "C01", cases, "c01-" + m)
        efflib.count(c, out, "programs run on the real try/option/either packages (every TLC-exported semantic program x every fitting "
                     "library function + seeded random nested programs); non-trivial = some operand fails or a callback runs")
    # the unit on nil payloads of nillable types (the programs above carry non-nil []int payloads)
    _, uout = c.harness("unitnil", [], name="c01-unitnil")
    for rej in c.validate(uout, "TraceEffect", max_rejects=6):
        ev = rej["line"]
        c.report("C01:unit-nil:%s:%s" % (ev["monad"], ev["fn"]), dict(kind="unitnil", observed=ev),
                 "%s.%s on the nil value of a %s type: defined=%s, continuation called with nil=%s - the unit must be total (EffectSpec!U)" % (
                     ev["monad"], ev["fn"], ev["kind"], ev["ok"], ev["called"]))
    # the other monads of the property, through their own specifications (small runs; C12/C16/C17 go deeper):
    # Seq / List / Iterator FlatMap-Map coherence against SeqSpec, lazy List cells, StateT and lazy.Eval programs
    import iterlib
    import os
    gens = [dict(kind="pipelines", n=600, seed=rng.getrandbits(40), depth=3, len=6, calls=8),
            dict(kind="listwalk", n=900, seed=rng.getrandbits(40), depth=1, len=6, calls=12)]
    iterlib.run_cases(c, "C01", gens, "c01-iter")
    sr = c.tlc("MCStateT", "MCStateT", count=False)
    sprogs = json.load(open(os.path.join(sr.dir, "statetprogs.json")))
    scases = [dict(kind="prog", prog=p["prog"], s0=p["s0"]) for p in rng.sample(sprogs, 1200)] + [dict(kind="gen", seed=rng.getrandbits(30), count=800, depth=4)]
    _, sout = c.harness("c17", scases, name="c01-statet")
    for rej in c.validate(sout, "TraceStateT", max_rejects=2):
        case = json.loads(rej["events"][0]["case"])
        c.report("C01:statet-run-differs", dict(case=case, kind="statet", observed=rej["line"]), "StateT program differs from StateTSpec!Run: %s" % json.dumps(rej["line"])[:300])
    _, eout = c.harness("c16", [dict(kind="gen", seed=rng.getrandbits(30), count=600, depth=5)], name="c01-eval")
    for rej in c.validate(eout, "TraceEval", max_rejects=2):
        case = json.loads(rej["events"][0]["case"])
        c.report("C01:eval-run-differs", dict(case=case, kind="eval", observed=rej["line"]), "lazy.Eval program differs from EvalSpec!Strict: %s" % json.dumps(rej["line"])[:300])
    c.assumptions += ["payload type []int; errors are identified by the injected error value; fn0/fn1 reader monads are not covered here"]
