"""C02 - failure short-circuits left to right; panics are captured, never lost.

(A) TLC (MCEffect): the definitional (FlatMap-based) semantics of every combinator equals the first-failure oracle on every
    argument tuple; EffectSpec!Eval additionally fixes which callbacks run and in which order.
(B) for every arity 2..9 and EVERY subset of failing positions (position i fails with its own error e<i>) the program is run
    with every fitting library function (MapN, LiftAN, FlatMapN, LiftMN, Zip*, Sequence*) in try, option and either; the
    TLC-exported programs cover suppliers (ApFunc, ApplicativeN/ChainN builders with every val/supplier pattern),
    continuations, Traverse*/FoldM, Recover*/Or*/OrElse* and try.Of/Call/CallUnit with every panic value.
(C) seeded random nested programs.  Logged per run: result, the very error value returned, and the ids of the callbacks
    invoked in order; TLC (TraceEffect) accepts only the first failing operand's own error, no callback after a failure, each
    earlier one exactly once, handlers only on failure, and panics surfacing as failures that expose the panic value.
"""
import json
import random

import efflib


def run(c):
    if c.replay:
        rp = json.load(open(c.replay))
        if rp.get("kind") == "statet":
            _, sout = c.harness("c17", [rp["case"]], name="replay-statet")
            for rej in c.validate(sout, "TraceStateT", max_rejects=1):
                c.report("C02:statet-run-differs", dict(case=rp["case"], kind="statet", observed=rej["line"]), "replayed: %s" % json.dumps(rej["line"])[:300])
            return
        efflib.run_and_judge(c, "C02", [rp["case"]], "replay")
        return
    rng = random.Random(c.seed * 3 + 2)
    c.tlc_expect_clean("MCEffect", "MCEffect", timeout=2400)
    progs = efflib.export_programs(c)
    monads = ["option", "either", "try"]
    for m in monads:
        cases = efflib.subsets_cases([m], range(2, 10) if c.thorough else [2, 3, 4, 5, 7, 9], rng)
        cases += [dict(kind="expand", monad=m, seed=rng.getrandbits(30), prog=p) for p in progs
                  if p["k"] in ("supp", "rec", "panic", "trav", "foldm", "chain")]
        cases.append(dict(kind="gen", monad=m, seed=rng.getrandbits(40), count=4000 if c.thorough else 1000, depth=4))
        out = efflib.run_and_judge(c, "C02", cases, "c02-" + m)
        efflib.count(c, out, "runs = (combinator, arity, set of failing positions / supplier pattern / panic value) on the real packages; "
                     "non-trivial = some operand fails or a callback runs")
    # the same clauses for the combinators that mix StateT with plain Try / Option operands (statet.ApTry / ApOption, Map2,
    # Sequence, Concat, Traverse, FoldM over failing steps): StateTSpec decides (C17 goes deeper)
    import os
    sr = c.tlc("MCStateT", "MCStateT", count=False)
    sprogs = json.load(open(os.path.join(sr.dir, "statetprogs.json")))
    scases = [dict(kind="prog", prog=p["prog"], s0=p["s0"]) for p in rng.sample(sprogs, min(len(sprogs), 1500))]
    scases.append(dict(kind="gen", seed=rng.getrandbits(30), count=800, depth=4))
    _, sout = c.harness("c17", scases, name="c02-statet")
    for rej in c.validate(sout, "TraceStateT", max_rejects=2):
        case = json.loads(rej["events"][0]["case"])
        c.report("C02:statet-run-differs", dict(case=case, kind="statet", observed=rej["line"]),
                 "StateT program differs from StateTSpec!Run: %s" % json.dumps(rej["line"])[:300])
    c.assumptions += ["operands are values: the caller evaluates all of them, left to right, before the combinator runs; only callbacks "
                      "(continuations, suppliers, traverse functions, handlers) can be skipped by the library"]
