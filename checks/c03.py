"""C03 - immutable Map/Set equal a mathematical map for every history and hasher.
C04 shares the machinery (checks/c04.py imports this module with other parameters).

(A) TLC: the version store Persist.tla with the reference algebra MapSpec; Hamt.tla - the trie as written, all
    node kinds and conversions - refines the reference map for ALL hash functions over 3 keys and for the four
    hasher families over 6 keys, every history up to the bound; probes show hash-array and collision nodes are
    reached.
(B) TLC simulates Hamt.tla with the REAL constants (32-way nodes, thresholds 8/16, 32-bit hashes as 7 fragments)
    for each hasher family, checking the refinement in every state; the simulated histories are replayed on the
    real immutable.Map with the same hasher.
(C) Seeded random histories over 40 keys (all constructors, builders, zero values, set algebra, coarse Eqv) are
    executed on the real library; after every step the full projection (Get of every key, Size, IsEmpty, the
    iterator) is logged and TLC (TracePersist) accepts the log only if it equals the reference content.
"""
import json
import random

import vf

KEYS40 = ",".join(str(i) for i in range(1, 41))
GEN_CFG = """SPECIFICATION Spec
CONSTANTS
  Keys = {%s}
  Vals = {1, 2, 3}
  Bits = 5
  MaxArray = 8
  MaxBitmap = 16
  HashBits = 32
  HashSpace <- %s
  MaxOps = %d
INVARIANTS GetAgrees SizeAgrees IterAgrees Structure
ACTION_CONSTRAINT Emit
CHECK_DEADLOCK FALSE
"""
FAMILIES = [("RealIdent", "identity"), ("RealLow", "low"), ("RealConst", "const"), ("RealHigh", "high"), ("RealMid", "mid")]


def classify(rej):
    ev = rej["line"]
    if ev["e"] == "Op":
        return "%s-%s%s-wrong-content-or-old-version-changed" % (ev["kd"], ev["op"], ("-" + ev["ctor"]) if ev.get("ctor") else "")
    if ev["e"] == "Panic":
        return "panic-%s-%s" % (ev["kd"], ev["op"])
    if ev["e"] == "Check":
        return "older-version-changed-after-%s" % ev["after"]
    if ev["e"] == "BAdd":
        return "builder-add"
    return ev["e"].lower()


def explain(rej):
    """Say which observation disagrees (diagnostic only; the verdict is TLC's)."""
    ev = rej["line"]
    if ev["e"] == "Panic":
        return "operation %s on a %s panicked: %s" % (ev["op"], ev["kd"], ev["v"])
    if ev["e"] == "Check":
        return "a previously obtained version shows different contents after %s" % ev["after"]
    if ev["e"] == "Op":
        return "after %s(%s) the observed content/size/iterator differs from the reference or an older version changed" % (ev["op"], ev["kd"])
    return json.dumps(ev)[:200]


def concrete(rej):
    case = json.loads(rej["events"][0]["case"])
    return case


def hamt_walks(c, family, n, depth, seed):
    name = "GenHamt" + family
    r = c.tlc("MCHamt", name, workers=1, simulate="num=%d" % n, depth=depth, seed=seed, timeout=900,
              files={name + ".cfg": GEN_CFG % (KEYS40, family, depth)})
    if r.errors or r.violated:
        raise vf.Infra("Hamt.tla with the real constants violates its refinement invariants: %s" % (r.violated or r.errors[:1]))
    walks, cur = [], None
    for line in r.out.splitlines():
        if not line.startswith('"[\\"STEP'):
            continue
        rec = json.loads(json.loads(line))
        if rec[1] == 1:
            cur = []
            walks.append(cur)
        if cur is not None:
            cur.append(rec)
    m = __import__("re").search(r"(\d+) states checked", r.out)
    if m:
        c.cov["states"] += int(m.group(1))
        c.cov["transitions"] += int(m.group(1))
    return walks


def run(c, prop="C03"):
    rng = random.Random(c.seed)
    if c.replay:
        rp = json.load(open(c.replay))
        _, out = c.harness("c03", [rp["case"]], name="replay")
        rej = c.validate(out, "TracePersist", cfg="TracePersist64" if rp["case"].get("nk") == 64 else None, max_rejects=1)
        if rej:
            c.report(prop + ":" + classify(rej[0]), dict(case=rp["case"], unexplained=rej[0]["line"]), explain(rej[0]))
        return

    # ---------------- (A) ----------------
    c.tlc_expect_clean("Persist", "MCPersist")
    if prop == "C03":
        c.tlc_expect_clean("MCHamt", "MCHamt", timeout=1500)
        c.tlc_expect_clean("MCHamt", "MCHamtFam", timeout=1500)
        reach = [c.tlc_expect_violation("MCHamt", p).violated for p in ("MCHamtProbeHA", "MCHamtProbeCol")]
        c.extra["node_kinds_reached_in_model"] = ["hash-array", "collision"] if all(reach) else reach
        if c.thorough:
            cfg = open(vf.SPEC + "/MCHamtFam.cfg").read().replace("MaxOps = 8", "MaxOps = 10")
            c.tlc_expect_clean("MCHamt", "MCHamtFam10", files={"MCHamtFam10.cfg": cfg}, timeout=3000)

    cases = []
    # ---------------- (B) ----------------
    if prop == "C03":
        nwalks, depth = (60, 120) if c.thorough else (12, 90)
        total = 0
        for fam, hasher in FAMILIES:
            for w in hamt_walks(c, fam, nwalks, depth, c.seed):
                ops = [dict(op="new", kd="map", a=0, b=0, k=0, k2=0, v=0, fn="", ps=[], ctor="varargs")]
                for _, i, opn, k, v, _ref in w:
                    ops.append(dict(op="updated" if opn == "put" else "removed", kd="map", a=len(ops), b=0, k=k, k2=0, v=v, fn="", ps=[]))
                cases.append(dict(nk=40, hasher=hasher, coarse=False, live=1, ops=ops, seed=rng.getrandbits(30), origin="tlc-simulate " + fam))
                total += 1
        c.extra["tlc_simulated_histories_replayed"] = total

    gs_cases = []
    # grow-and-shrink histories over 64 keys: a 32-way node is filled well beyond the conversion thresholds (keys landing in
    # occupied slots), then emptied again key by key in several orders; every intermediate version is projected and iterated
    if prop == "C03":
        for h in ("identity", "low", "table", "mid"):
            for order in ("asc", "desc", "shuffle"):
                keys = list(range(1, 65))
                ops = [dict(op="new", kd="map", a=0, b=0, k=0, k2=0, v=0, fn="", ps=[], ctor="varargs")]
                for k in keys:
                    ops.append(dict(op="updated", kd="map", a=len(ops), b=0, k=k, k2=0, v=k % 3 + 1, fn="", ps=[]))
                rem = list(keys) if order == "asc" else list(reversed(keys)) if order == "desc" else rng.sample(keys, len(keys))
                for k in rem:
                    ops.append(dict(op="removed", kd="map", a=len(ops), b=0, k=k, k2=0, v=0, fn="", ps=[]))
                gs_cases.append(dict(nk=64, hasher=h, coarse=False, live=1, ops=ops, seed=rng.getrandbits(30), origin="grow-shrink " + order))

    # ---------------- (C) ----------------
    hashers = ["identity", "low", "const", "high", "table", "mid"]
    n = (40 if c.thorough else 8)
    for h in hashers:
        for i in range(n):
            if prop == "C03":
                cases.append(dict(nk=40, hasher=h, coarse=(i % 3 == 1), steps=rng.choice([60, 150, 250 if c.thorough else 150]),
                                  seed=rng.getrandbits(40), branch=(i % 4 == 3), live=1,
                                  keyscap=rng.choice([40, 40, 12, 24]), origin="random history"))
            else:
                cases.append(dict(nk=40, hasher=h, coarse=(i % 3 == 1), steps=rng.choice([30, 60]), seed=rng.getrandbits(40),
                                  branch=True, live=1000, keyscap=rng.choice([40, 10, 20]), init=rng.choice([0, 0, 14, 30]),
                                  origin="branching history"))
    summary, out = c.harness("c03", cases, timeout=3000)
    c.cov["evaluations"] += summary["ops"]
    c.extra["histories"] = summary["traces"]
    c.extra["events"] = summary["events"]

    # distinct non-trivial histories: contain a collision-prone or threshold-crossing phase, measured as:
    # the version content reached >= 9 keys (past the array node) at some point, or the hasher collides
    nontrivial, seen = 0, set()
    with open(out) as fh:
        cur, big, key = None, False, []
        def flush():
            nonlocal nontrivial
            if cur is None:
                return
            k = hash(tuple(key))
            if k in seen:
                return
            seen.add(k)
            if big:
                nontrivial += 1
        for line in fh:
            ev = json.loads(line)
            if ev["tr"] != cur:
                flush()
                cur, big, key = ev["tr"], False, []
                case = json.loads(ev["case"])
                if case.get("hasher") in ("const", "low", "mid", "table"):
                    big = True
                if len(c.cov["samples"]) < 3 and ev["tr"] % 37 == 3:
                    case.pop("ops", None)
                    c.cov["samples"].append(case)
            if ev["e"] == "Op":
                key.append((ev["op"], ev["k"], ev["v"], ev["a"]))
                if ev["size"] >= 9:
                    big = True
        flush()
    c.cov["distinct_nontrivial"] = nontrivial
    c.cov["rule"] = ("histories executed on the real immutable Map/Set (TLC-simulated walks of Hamt.tla with the real constants + "
                     "seeded random histories over 40 keys); distinct = distinct operation sequences; non-trivial = grows past the "
                     "8-entry array node or uses a colliding / low-entropy hasher")
    c.assumptions += ["keys are ints 1..40 (and k+40 under a coarse Eqv); values 1..3; the harness reads the library only through its public API"]
    if not c.cov["samples"]:
        c.cov["samples"].append({k: v for k, v in cases[0].items() if k != "ops"})

    rejected = [(r, "TracePersist") for r in c.validate(out, "TracePersist", max_rejects=15, timeout=3000)]
    if gs_cases:
        # the 64-key histories are validated with the key universe 1..64
        s2, out2 = c.harness("c03", gs_cases, name="growshrink", timeout=3000)
        c.cov["evaluations"] += s2["ops"]
        c.extra["grow_shrink_histories"] = s2["traces"]
        rejected += [(r, "TracePersist64") for r in c.validate(out2, "TracePersist", cfg="TracePersist64", max_rejects=5, timeout=3000)]
    classes = set()
    for rej, cfgname in rejected:
        k = classify(rej)
        c.extra.setdefault("rejected_by_class", {}).setdefault(k, 0)
        c.extra["rejected_by_class"][k] += 1
        if k in classes:
            continue
        classes.add(k)
        case = concrete(rej)
        _, o2 = c.harness("c03", [case], name="confirm")
        again = c.validate(o2, "TracePersist", cfg=cfgname, max_rejects=1)
        if not again:
            raise vf.Infra("rejected history did not reproduce")
        c.report(prop + ":" + classify(again[0]), dict(case=case, unexplained=again[0]["line"]), explain(again[0]))
