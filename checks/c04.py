"""C04 - values are persistent: no operation alters an existing value or its inputs.

(A) TLC: the version stores Persist.tla (Map/Set, builders) and SeqStore.tla (Seq / List / iterator results, raw
    slices) never change an existing version (action property) and their reference algebra satisfies its laws.
(C) Branching histories on the real library: any live version may be the source of the next operation; after
    EVERY step every live version - and every raw backing array handed to the library, read up to its capacity -
    is re-read through the public API and logged; TLC (TracePersist / TraceSeqStore) accepts the log only if each
    still equals the content recorded when it was created, and each new value equals the reference content.
"""
import json
import random

import c03
import vf


def seq_classify(rej):
    ev = rej["line"]
    if ev["e"] == "Panic":
        return "seq-panic-%s-%s" % (ev["op"], ev["impl"])
    if ev["e"] == "Check":
        return "seq-input-or-older-value-changed-after-%s" % ev["after"]
    # which conjunct failed is recomputed for the message only: result wrong, or an older version changed
    return "seq-%s-%s-wrong-result-or-older-value-changed" % (ev.get("op"), ev.get("impl") or "seq")


def run(c):
    if c.replay:
        rp = json.load(open(c.replay))
        if rp.get("kind") == "seq":
            _, out = c.harness("c04seq", [rp["case"]], name="replay")
            rej = c.validate(out, "TraceSeqStore", max_rejects=1)
            if rej:
                c.report("C04:" + seq_classify(rej[0]), dict(kind="seq", case=rp["case"], unexplained=rej[0]["line"]),
                         "sequence history rejected by SeqStore at %s" % json.dumps(rej[0]["line"])[:300])
            return
        return c03.run(c, "C04")
    rng = random.Random(c.seed * 7 + 1)
    c.tlc_expect_clean("SeqStore", "MCSeqStore")
    # Map / Set / builders
    c03.run(c, "C04")
    # Seq / List / iterator results and raw slices
    cases = [dict(steps=rng.choice([25, 40, 60]), seed=rng.getrandbits(40), maxlen=rng.choice([3, 5, 8]),
                  impls="all" if i % 3 else "seq", origin="random branching sequence history")
             for i in range(240 if c.thorough else 60)]
    summary, out = c.harness("c04seq", cases, timeout=3000)
    c.cov["evaluations"] += summary["ops"]
    c.extra["seq_histories"] = summary["traces"]
    rejected = c.validate(out, "TraceSeqStore", max_rejects=15, timeout=3000)
    classes = set()
    for rej in rejected:
        k = seq_classify(rej)
        c.extra.setdefault("rejected_by_class", {}).setdefault(k, 0)
        c.extra["rejected_by_class"][k] += 1
        if k in classes:
            continue
        classes.add(k)
        case = json.loads(rej["events"][0]["case"])
        _, o2 = c.harness("c04seq", [case], name="confirm")
        again = c.validate(o2, "TraceSeqStore", max_rejects=1)
        if not again:
            raise vf.Infra("rejected sequence history did not reproduce")
        ev = again[0]["line"]
        ev2 = {k: v for k, v in ev.items() if k != "live"}
        c.report("C04:" + seq_classify(again[0]), dict(kind="seq", case=case, unexplained=ev2),
                 "sequence history rejected by SeqStore (result differs from the eager reference, or an older value / input "
                 "slice changed) at %s" % json.dumps(ev2)[:300])
    c.cov["rule"] += ("; plus branching histories of fp.Seq / iterator / list operations with every version and every raw "
                      "backing array re-read after every step")
