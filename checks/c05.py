"""C05 - Promise: single assignment and exactly-once callback delivery.

(A) TLC: PromiseAbs (the property) exhaustively; Promise.tla (the CAS loops with Go slice
    semantics, code as it should be) satisfies its invariants and refines PromiseAbs for all
    interleavings; the variant with in-place append is rejected (the model has teeth).
(B) The labelled state graph of Promise.tla is exported and an edge cover of it is replayed as
    schedules on the real fp.Promise under the cooperative scheduler.
(C) The harness explores further schedules itself (exhaustive DFS for small populations, seeded
    random schedules for large ones; filters, executors, nested registration, zero value) and
    every recorded execution is accepted or rejected by TLC against PromiseAbs.
"""
import json
import random

import vf

GEN_CFG = """SPECIFICATION Spec
CONSTANTS
  Registrars = {%s}
  Completers = {%s}
  N0 = %d
  AppendMode = "copy"
VIEW View
ACTION_CONSTRAINT Emit
CHECK_DEADLOCK FALSE
"""

MC_CFG = """SPECIFICATION %s
CONSTANTS
  Registrars = {%s}
  Completers = {%s}
  N0 = %d
  AppendMode = "%s"
VIEW View
INVARIANTS AtMostOneWinner NeverTwice NotBeforeDone RightValue ExactlyOnceAtEnd NoDupInPublished AllRegisteredPresent CasFailsOnlyAfterProgress
PROPERTIES DoneIsFinal Refines %s
CHECK_DEADLOCK FALSE
"""

STEP = {"Start", "RGet", "RCas", "CGet", "CCas"}   # model actions that are one scheduler step of thread t


def q(names):
    return ", ".join('"%s"' % n for n in names)


def schedule_of(path):
    s = []
    for a, t in path:
        if a in STEP:
            s.append(t)
        elif a == "Run":
            s.append("task")
    return s


def threads_of(regs, comps, vias=None):
    th = [dict(name=r, kind="reg") for r in regs]
    th += [dict(name=k, kind="comp", via=(vias or {}).get(k, "success")) for k in comps]
    return th


def classify(rej):
    ev, events = rej["line"], rej["events"]
    idx = rej["index_in_trace"]
    if rej.get("invariant"):
        return "invariant-" + rej["invariant"]
    if ev["e"] == "Deliver":
        before = [e for e in events[:idx] if e["e"] == "Deliver" and e["c"] == ev["c"]]
        if before:
            return "callback-delivered-twice"
        if not any(e["e"] == "CCall" for e in events[:idx]):
            return "callback-before-completion"
        return "callback-delivery-unexplained"
    if ev["e"] == "Quiesce":
        regs = {e["c"] for e in events if e["e"] == "RRet"}
        got = {e["c"] for e in events if e["e"] == "Deliver"}
        if any(e["e"] == "CRet" and e["r"] for e in events) and regs - got:
            return "callback-never-delivered"
        return "quiescence-unexplained"
    if ev["e"] == "CRet":
        return "complete-return-value"
    if ev["e"] == "Panic":
        return "panic"
    return ev["e"].lower() + "-unexplained"


def concrete_case(rej):
    case = json.loads(rej["events"][0]["case"])
    picked = [e for e in rej["events"] if e["e"] == "Quiesce"]
    if picked:
        case["schedule"] = picked[-1]["picked"]
    case.pop("explore", None)
    case.pop("max", None)
    case["drain"] = "fifo"
    return case


def confirm_and_report(c, rej):
    """Re-execute the rejected execution from its concrete schedule; report only if TLC rejects it again."""
    case = concrete_case(rej)
    _, out = c.harness("c05", [case], name="confirm")
    again = c.validate(out, "TracePromiseAbs", max_rejects=1)
    c.cov["traces_validated_against_impl"] -= 0 if again else 1
    if not again:
        raise vf.Infra("rejected execution did not reproduce from its schedule (non-deterministic harness?)")
    sig = classify(again[0])
    ev = again[0]["line"]
    c.report("C05:" + sig, dict(case=case, events=again[0]["events"], unexplained=ev),
             "real fp.Promise execution is not a behaviour of PromiseAbs: %s at event %s" % (sig, json.dumps(ev)))


def run(c):
    rng = random.Random(c.seed)
    if c.replay:
        rp = json.load(open(c.replay))
        _, out = c.harness("c05", [rp["case"]], name="replay")
        rej = c.validate(out, "TracePromiseAbs", max_rejects=1)
        if rej:
            c.report("C05:" + classify(rej[0]), dict(case=rp["case"], events=rej[0]["events"], unexplained=rej[0]["line"]),
                     "replayed execution rejected by PromiseAbs at %s" % json.dumps(rej[0]["line"]))
        return

    # ---------------- (A) the property on the specifications ----------------
    c.tlc_expect_clean("MCPromiseAbs", "MCPromiseAbs")
    # unbounded: the inductive invariant of PromiseAbs and the safety part of the property, for any number of callbacks and
    # completers, by the TLA+ proof system
    c.tlapm("PromiseAbsProof")
    regs, comps = (["r1", "r2", "r3"], ["k1", "k2"]) if c.thorough else (["r1", "r2"], ["k1", "k2"])
    n0s = [0, 1, 2, 3, 4] if c.thorough else [0, 3]
    for n0 in n0s:
        name = "MCPromise_n%d" % n0
        if c.thorough and n0 > 2:
            rg = regs[:2]
        else:
            rg = regs
        c.tlc_expect_clean("Promise", name, files={name + ".cfg": MC_CFG % ("Spec", q(rg), q(comps), n0, "copy", "")},
                           timeout=1500)
    # liveness under fairness (no state constraint): everything terminates, i.e. the CAS loops are lock-free
    c.tlc_expect_clean("Promise", "MCPromiseLive",
                       files={"MCPromiseLive.cfg": MC_CFG % ("FairSpec", q(["r1", "r2"]), q(["k1"] if not c.thorough else ["k1", "k2"]),
                                                             2, "copy", "Terminates")}, timeout=1500)
    neg = c.tlc_expect_violation("Promise", "MCPromiseNeg",
                                 files={"MCPromiseNeg.cfg": MC_CFG % ("Spec", q(["r1", "r2"]), q(["k1"]), 3, "inplace", "")})
    c.extra["negative_config_rejected"] = neg.violated

    # ---------------- (B) spec -> code: edge cover of the exported graph as schedules ----------------
    cases = []
    gen = [(["r1", "r2"], ["k1"], n0) for n0 in ([0, 1, 2, 3, 4] if c.thorough else [0, 2, 3])]
    gen += [(["r1"], ["k1", "k2"], n0) for n0 in ([0, 1, 3] if c.thorough else [1])]
    if c.thorough:
        gen += [(["r1", "r2"], ["k1", "k2"], 3), (["r1", "r2", "r3"], ["k1"], 3)]
    edges_total = paths_total = uncovered_total = 0
    for rg, cp, n0 in gen:
        name = "GenPromise_%d_%d_%d" % (len(rg), len(cp), n0)
        g, _ = c.export_graph("GenPromise", name, GEN_CFG % (q(rg), q(cp), n0))
        # quick: every transition that is an atomic step of an API thread; thorough: every transition
        # (thorough: at most 6000 paths per graph; what stays uncovered is reported in the evidence)
        paths, unc = g.edge_cover(rng, want=None if c.thorough else (lambda lab: lab[0] in STEP), max_paths=6000 if c.thorough else None)
        edges_total += len(g.edges)
        paths_total += len(paths)
        uncovered_total += unc
        for p in paths:
            cases.append(dict(n0=n0, exec="default", threads=threads_of(rg, cp), schedule=schedule_of(p),
                              drain="fifo", origin="edge-cover " + name))
        for p in g.random_walks(rng, 200 if c.thorough else 40):
            cases.append(dict(n0=n0, exec=rng.choice(["default", "queue"]), threads=threads_of(rg, cp),
                              schedule=schedule_of(p), drain="lifo", origin="walk " + name))
    c.extra["graph_edges"] = edges_total
    c.extra["edge_cover_paths"] = paths_total
    c.extra["edges_left_uncovered"] = uncovered_total

    # ---------------- (C) code -> spec: the harness explores schedules itself ----------------
    # exhaustive re-execution DFS over all scheduler choices for small populations
    for n0 in ([0, 1, 2, 3, 4] if c.thorough else [0, 1, 3]):
        cases.append(dict(n0=n0, exec="default", threads=threads_of(["r1", "r2"], ["k1"]), explore="dfs",
                          max=15000 if c.thorough else 6000, origin="dfs"))
    cases.append(dict(n0=1, exec="default", threads=threads_of(["r1"], ["k1", "k2"], {"k2": "failure"}) +
                      [dict(name="o1", kind="obs")], explore="dfs", max=15000 if c.thorough else 6000, origin="dfs"))
    if c.thorough:
        cases.append(dict(n0=3, exec="default", threads=threads_of(["r1", "r2", "r3"], ["k1"]), explore="dfs",
                          max=30000, origin="dfs"))
        cases.append(dict(n0=2, exec="default", threads=threads_of(["r1", "r2"], ["k1"]), explore="dfs",
                          tasksfree=True, max=15000, origin="dfs tasks free"))
    # seeded random schedules over large populations, all registration methods, all executors
    vias = ["complete", "success", "failure", "foreach"]
    for i in range(60 if c.thorough else 16):
        nreg, ncomp = rng.randint(2, 6), rng.randint(1, 3)
        th = [dict(name="r%d" % (j + 1), kind="reg", via=rng.choice(vias), nest=rng.random() < 0.25) for j in range(nreg)]
        th += [dict(name="k%d" % (j + 1), kind="comp", via=rng.choice(["success", "complete", "failure"])) for j in range(ncomp)]
        th += [dict(name="o%d" % (j + 1), kind="obs") for j in range(rng.randint(0, 2))]
        rng.shuffle(th)
        cases.append(dict(n0=rng.randint(0, 8), exec=rng.choice(["default", "default", "sync", "queue"]), threads=th,
                          zero="promise" if i % 8 == 7 else "", explore="random", max=400 if c.thorough else 100,
                          seed=rng.getrandbits(40), origin="random"))
    summary, out = c.harness("c05", cases, timeout=3000)
    c.cov["evaluations"] += summary["events"]
    c.extra["executions"] = summary["executions"]
    c.extra["dfs_complete"] = summary.get("dfs_complete", 0)
    c.extra["dfs_capped"] = summary.get("dfs_capped", 0)

    # distinct non-trivial executions: distinct event sequences in which some CAS lost a race, measured as
    # a registration or completion that returned after another thread's call began and before its own return
    seen, nontrivial, cur, key = set(), 0, None, []
    def flush():
        nonlocal nontrivial
        if not key:
            return
        k = tuple(key)
        if k in seen:
            return
        seen.add(k)
        open_calls, overlap = set(), False
        for e, who in k:
            if e in ("RCall", "CCall"):
                if open_calls:
                    overlap = True
                open_calls.add(who)
            elif e in ("RRet", "CRet"):
                open_calls.discard(who)
        if overlap:
            nontrivial += 1
    with open(out) as fh:
        for line in fh:
            ev = json.loads(line)
            if ev["tr"] != cur:
                flush()
                cur, key = ev["tr"], []
                if len(c.cov["samples"]) < 3 and ev["tr"] % 997 == 5:
                    c.cov["samples"].append(dict(case=json.loads(ev["case"])))
            if ev["e"] != "Init":
                key.append((ev["e"], ev.get("c") or ev.get("t") or ""))
        flush()
    c.cov["distinct_nontrivial"] = nontrivial
    c.extra["distinct_executions"] = len(seen)
    c.cov["rule"] = ("executions = schedules replayed on the real fp.Promise (edge cover + random walks of the TLC graph of "
                     "Promise.tla, exhaustive DFS of scheduler choices, seeded random schedules); distinct = distinct event "
                     "sequences; non-trivial = two or more API calls overlap in time (a race is possible)")
    c.cov["exhaustive"] = False
    c.assumptions += ["callback tasks only log; API calls are linearizable at one of their atomic steps",
                      "the cooperative scheduler serialises goroutines at the verif yield points (atomic Get/Load/Store/CAS)"]

    rejected = c.validate(out, "TracePromiseAbs", max_rejects=12, timeout=3000)
    if not c.cov["samples"]:
        c.cov["samples"].append(cases[0])
    classes = set()
    for rej in rejected:
        k = classify(rej)
        c.extra.setdefault("rejected_by_class", {}).setdefault(k, 0)
        c.extra["rejected_by_class"][k] += 1
        if k not in classes:       # one confirmed report per class of failure
            classes.add(k)
            confirm_and_report(c, rej)
