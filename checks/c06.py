"""C06 - future combinators are schedule-independent and always complete.

(A) TLC (MCFuture): for every expression of the space (586 expressions over 3 sources, incl. continuations that return another
    source's future), every assignment of results and every completion order, a derived future that follows FutureSpec's rules
    is assigned once, never before its partial Try-evaluation PEval is settled, always with the value of the full evaluation
    (schedule independence) and eventually, under fairness.
(B) the same expression space is exported and built with EVERY fitting function of the real future package; the harness owns
    every interleaving through the cooperative scheduler (default executor -> scheduler tasks; the expression is built by a
    scheduled thread too, so sources complete before, during and after construction): exhaustive DFS over task-level
    schedules, seeded random schedules at the granularity of single atomic operations.
(C) seeded random nested expressions (arity up to 9, Sequence/Traverse*/FoldFuture/Compose*/LiftA*/LiftM*/ApFunc/builders/
    Recover*/Or*/Apply/Apply2/Func* with panics, sources that never complete).
    After every scheduling step the derived future is observed; TLC (TraceFuture) rejects a completion that is early, has
    another value than PEval, changes, or is still missing at quiescence.
"""
import json
import os
import random

import vf


def classify(rej):
    ev = rej["line"]
    init = rej["events"][0]
    import efflib
    names = "+".join(sorted(efflib.kinds_of(init["prog"])))[:70] or init["prog"]["k"]
    if ev["e"] == "Obs":
        return "completed-early-or-wrong-value:" + names
    if ev["e"] == "End":
        return ("not-completed-at-quiescence:" if not ev["c"] else "wrong-final-value:") + names
    return ev["e"].lower() + ":" + names


def run(c):
    if c.replay:
        rp = json.load(open(c.replay))
        _, out = c.harness("c06", [rp["case"]], name="replay")
        rej = c.validate(out, "TraceFuture", max_rejects=1)
        if rej:
            c.report("C06:" + classify(rej[0]), dict(case=rp["case"], unexplained=rej[0]["line"]), "future execution rejected by FutureSpec at %s" % json.dumps(rej[0]["line"]))
        return
    rng = random.Random(c.seed)
    c.tlc_expect_clean("MCFuture", "MCFuture", timeout=1500)
    r = c.tlc("GenFuture", "GenFuture", workers=1, count=False)
    progs = json.load(open(os.path.join(r.dir, "futureprogs.json")))
    c.extra["tlc_exported_expressions"] = len(progs)
    sample = progs if c.thorough else rng.sample(progs, 120)
    resv = [dict(ok=True, v=[1], e="-"), dict(ok=True, v=[2], e="-"), dict(ok=False, v=[], e="e5")]
    cases = []
    for p in sample:
        for _ in range(2 if c.thorough else 1):
            res = [rng.choice(resv) for _ in range(3)]
            pre = [i for i in (1, 2, 3) if rng.random() < 0.25]
            order = [i for i in (1, 2, 3) if i not in pre and rng.random() < 0.85]
            cases.append(dict(kind="prog", prog=p, res=res, pre=pre, order=order, explore="dfs", level="task",
                              max=400 if c.thorough else 60, seed=rng.getrandbits(30)))
    cases.append(dict(kind="gen", seed=rng.getrandbits(40), count=600 if c.thorough else 150, depth=3, explore="dfs", level="task",
                      max=300 if c.thorough else 40))
    cases.append(dict(kind="gen", seed=rng.getrandbits(40), count=600 if c.thorough else 150, depth=3, explore="random", level="atomic",
                      max=20 if c.thorough else 6))
    # several threads build combinators on ONE shared source that already carries three callbacks, racing with its completion:
    # a registration lost inside the promise shows up here as a derived future that never completes
    for name in ["Map", "m.Map", "FlatMap", "LiftA2", "Sequence", "RecoverWith"]:
        if name in ("LiftA2", "Sequence"):
            prog = dict(k="all", name=name, args=[dict(k="src", id=1), dict(k="src", id=1)], fin=dict(t="pure" if name == "LiftA2" else "none", id=0, c="-"))
        elif name in ("Map", "m.Map"):
            prog = dict(k="all", name=name, args=[dict(k="src", id=1)], fin=dict(t="pure", id=0, c="-"))
        elif name == "FlatMap":
            prog = dict(k="chain", name=name, arg=dict(k="src", id=1), ks=[dict(id=0, c="kinc")])
        else:
            prog = dict(k="rec", name=name, arg=dict(k="src", id=1), kk=dict(id=0, c="kinc"))
        for prereg in (3, 1, 0):
            cases.append(dict(kind="prog", prog=prog, res=[rng.choice(resv)], pre=[], order=[1], builders=2, prereg=prereg,
                              explore="random", level="atomic", max=150 if c.thorough else 40, seed=rng.getrandbits(30)))
    summary, out = c.harness("c06", cases, timeout=3400)
    c.cov["evaluations"] += summary["events"]
    c.extra.update({k: v for k, v in summary.items() if k not in ("events", "traces")})
    seen, non, cur = set(), 0, None
    for line in open(out):
        ev = json.loads(line)
        if ev["e"] == "Init":
            cur = [ev["case"]]
        elif ev["e"] in ("Done", "Obs"):
            cur.append((ev["e"], ev.get("i"), ev.get("c")))
        elif ev["e"] == "End":
            k = hash(tuple(cur))
            if k not in seen:
                seen.add(k)
                case = json.loads(cur[0])
                if len(case.get("order") or []) >= 2 or not ev["c"]:
                    non += 1
                if len(c.cov["samples"]) < 3 and len(seen) % 1501 == 3:
                    c.cov["samples"].append(case)
    c.cov["distinct_nontrivial"] = non
    c.extra["distinct_executions"] = len(seen)
    c.cov["rule"] = ("executions = (expression, results, completion order, schedule) run on the real future package under the harness "
                     "scheduler; distinct = distinct observation sequences; non-trivial = two or more sources complete concurrently with "
                     "the construction, or the derived future must stay pending")
    c.assumptions += ["task-level exploration runs a chosen thread to completion (justified by C05: each promise operation is linearizable); "
                      "atomic-level schedules are sampled, not exhausted", "payload []int; callbacks return immediate futures or another source's future"]
    rejected = c.validate(out, "TraceFuture", max_rejects=12, timeout=3400)
    classes = set()
    for rej in rejected:
        k = classify(rej)
        c.extra.setdefault("rejected_by_class", {}).setdefault(k, 0)
        c.extra["rejected_by_class"][k] += 1
        if k in classes:
            continue
        classes.add(k)
        # the schedule is a function of (case, DFS index / seed): re-run the whole case and look for a rejection again
        case = json.loads(rej["events"][0]["case"])
        _, o2 = c.harness("c06", [case], name="confirm")
        again = c.validate(o2, "TraceFuture", max_rejects=1)
        if not again:
            raise vf.Infra("rejected future execution did not reproduce")
        c.report("C06:" + classify(again[0]), dict(case=case, events=[{k2: v for k2, v in e.items() if k2 not in ("case", "prog")} for e in again[0]["events"]]),
                 "future execution is not allowed by FutureSpec (%s): %s" % (classify(again[0]), json.dumps(again[0]["line"])))
