"""C07 - gombok's @fp.Value output: accessors, With, builder, tuple/labelled/map/mutable conversions.

(A) TLC (Gombok.tla): for every struct shape of up to three fields (visibility x Option) and every value, the abstract API
    actions satisfy the accessor laws (WithF changes F and nothing else, Option setters), the conversions are mutually
    inverse on the active fields in declaration order, and Builder().Build() is the identity.
(B) seeded scratch packages of @fp.Value structs (boundary shapes: 1, 21, 22, 23 fields, only public fields, generic struct,
    Option fields, underscore / embedded / func / chan / interface / error fields; plus random shapes over every field kind,
    visibility and tag) are run through gombok BUILT FROM THE WORKING TREE, twice (GOMAXPROCS 1 and 16; the two outputs must
    be byte-identical), then go vet and go build, then the generic reflection driver which lives in the generated package and
    uses the struct's own private fields as the oracle.  One event per struct; TLC (TraceGombok) accepts only events where the
    API Gombok!Required demands is present and every law held on every sampled value.
"""
import json
import os
import random
import shutil

import gomboklib as G
import vf


def run_package(c, sc, pkg, shapes, seed, prop="C07"):
    """-> list of events (Generate first).  A failing stage is confirmed by a second, independent run of the same package
    (go/packages occasionally fails to load a scratch package for reasons unrelated to its content); only a failure that
    repeats is reported.  Differing output between the two generator runs (deterministic = false) is never retried."""
    evs = _run_package_once(c, sc, pkg, shapes, seed)
    g = evs[0]
    if g["deterministic"] and not (g["gombok"] and g["build"] and g["vet"] and g["driver"]):
        shutil.rmtree(os.path.join(sc.root, pkg), ignore_errors=True)
        evs2 = _run_package_once(c, sc, pkg, shapes, seed)
        g2 = evs2[0]
        if g2["gombok"] and g2["build"] and g2["vet"] and g2["driver"]:
            c.extra["unrepeated_stage_failures"] = c.extra.get("unrepeated_stage_failures", []) + [dict(pkg=pkg, msg=g.get("msg", "")[-300:])]
        return evs2
    return evs


def _run_package_once(c, sc, pkg, shapes, seed):
    types_go, registry = G.go_source(pkg, shapes)
    sc.package(pkg, types_go, {"registry_test.go": registry})
    rc, out = sc.generate(pkg, gomaxprocs=1)
    gen = dict(e="Generate", pkg=pkg, gombok=rc == 0, build=False, vet=False, driver=False, deterministic=True, msg="")
    events = []
    if rc != 0:
        gen["msg"] = out[-600:]
        return [gen]
    # second run on the same input with other parallelism: the two outputs must be byte-identical
    d = os.path.join(sc.root, pkg)
    first = {f: open(os.path.join(d, f), "rb").read() for f in sorted(os.listdir(d)) if f.endswith("_generated.go")}
    for f in first:
        os.remove(os.path.join(d, f))
    rc2, out2 = sc.generate(pkg, gomaxprocs=16)
    second = {f: open(os.path.join(d, f), "rb").read() for f in sorted(os.listdir(d)) if f.endswith("_generated.go")}
    gen["deterministic"] = rc2 == 0 and first == second
    ok_b, ok_v, msg = sc.build(pkg)
    gen["build"], gen["vet"] = ok_b, ok_v
    if not ok_b or not ok_v:
        gen["msg"] = msg[-800:]
        return [gen]
    rc, out, events = sc.drive(pkg, seed)
    gen["driver"] = rc == 0 and len([e for e in events if e["e"] == "Struct"]) == len(shapes)
    if not gen["driver"]:
        gen["msg"] = out[-800:]
    return [gen] + events


def isolate(c, sc, shapes, seed, bad_of):
    """which single structs make the package fail: one package per struct (bounded)"""
    culprits = []
    for i, sh in enumerate(shapes[:60]):
        evs = run_package(c, sc, "iso%d" % i, [sh], seed)
        shutil.rmtree(os.path.join(sc.root, "iso%d" % i), ignore_errors=True)
        if bad_of(evs):
            culprits.append((sh, evs))
    return culprits


def bad_events(evs):
    g = evs[0]
    if not (g["gombok"] and g["build"] and g["vet"] and g["driver"] and g["deterministic"]):
        return True
    return False


def run(c):
    c.tlc_expect_clean("MCGombok", "MCGombok")
    rng = random.Random(c.seed)
    sc = G.Scratch(c)
    try:
        if c.replay:
            rp = json.load(open(c.replay))
            packages = [("rp", rp["shapes"])]
        else:
            n = 40 if c.tier == "quick" else 400
            per = 40
            rnd = G.gen_shapes(rng, n)
            packages = [("pk0", G.special_shapes())] + [("pk%d" % (1 + i // per), rnd[i:i + per]) for i in range(0, n, per)]
        allev, by_pkg = [], {}
        for pkg, shapes in packages:
            evs = run_package(c, sc, pkg, shapes, c.seed)
            if bad_events(evs) and len(shapes) > 1:
                # the package as a whole failed: find the structs that do it, run the rest
                cul = isolate(c, sc, shapes, c.seed, bad_events)
                names = {sh["name"] for sh, _ in cul}
                for sh, e1 in cul:
                    e1[0]["struct"] = sh["name"]
                    e1[0]["shape"] = sh
                    allev += e1
                rest = [sh for sh in shapes if sh["name"] not in names]
                if cul and rest:
                    shutil.rmtree(os.path.join(sc.root, pkg), ignore_errors=True)
                    evs = run_package(c, sc, pkg + "r", rest, c.seed)
                elif not cul:
                    pass
                    evs[0]["shapes"] = shapes
                else:
                    evs = []
            by_pkg[pkg] = shapes
            for e in evs:
                e.setdefault("pkg", pkg)
            allev += evs
            shutil.rmtree(os.path.join(sc.root, pkg), ignore_errors=True)
        shape_of = {sh["name"]: sh for _, shapes in packages for sh in shapes}
        out = os.path.join(c.tmp, "gombok.ndjson")
        tr = 1
        with open(out, "w") as fh:
            for e in allev:
                e["tr"] = tr
                if e["e"] not in ("JsonDetail", "Op"):
                    tr += 1
                fh.write(json.dumps(e) + "\n")
        structs = [e for e in allev if e["e"] == "Struct"]
        c.cov["evaluations"] += sum(e["iters"] for e in structs)
        c.cov["distinct_nontrivial"] = len([e for e in structs if e["active"] >= 2])
        kinds = sorted({(f["kind"], f["vis"]) for e in structs for f in e["fields"]})
        c.extra["structs"] = len(structs)
        c.extra["api_calls_checked_by_spec"] = sum(e.get("ops", 0) for e in structs)
        c.cov["evaluations"] += c.extra["api_calls_checked_by_spec"]
        c.extra["kind_x_visibility"] = len(kinds)
        c.extra["field_counts"] = sorted({e["nf"] for e in structs})
        c.cov["rule"] = ("one case = one @fp.Value struct declaration run through the gombok of the working tree and driven with 25 "
                         "random values; non-trivial = at least two active fields (an order or cross-field mix-up is possible)")
        for e in structs[:3]:
            c.sample(dict(struct=e["name"], fields=[(f["name"], f["kind"], f["vis"]) for f in e["fields"]], has=sorted(e["has"])))
        rejected = c.validate(out, "TraceGombok", max_rejects=30)
        for rej in rejected:
            ev = rej["line"]
            if ev["e"] == "Generate":
                what = [k for k in ("gombok", "build", "vet", "driver", "deterministic") if not ev[k]]
                sh = ev.get("shape")
                key = "C07:generate:%s:%s" % (what[0], classify(ev.get("msg", "")))
                shapes = [sh] if sh else ev.get("shapes") or by_pkg.get(ev.get("pkg"), [])
                c.report(key, dict(shapes=shapes), "gombok output for struct %s fails at stage %s: %s" % (
                    sh["name"] + " " + fields_text(sh) if sh else ev.get("pkg"), what[0], ev.get("msg", "")[-300:].replace("\n", " | ")))
            elif ev["e"] == "Op":
                sh = shape_of.get(ev["struct"])
                c.report("C07:op:%s" % ev["op"], dict(shapes=[sh] if sh else []),
                         "struct %s %s: %s(field %d, %s) on %s gives %s - not what Gombok!Expected computes" % (
                             ev["struct"], fields_text(sh) if sh else "", ev["op"], ev["i"], ev["v"][:60], ev["x"], ev["y"]))
            else:
                sh = shape_of.get(ev["name"])
                bad = [k for k, v in ev["law"].items() if not v and (k not in ("json", "jsontwin") or ev["json"])]
                badf = [(f["name"], [k for k in ("getter", "with", "getterok", "withok", "withsome", "withnone", "bsome", "bnone", "bset") if not f[k]])
                        for f in ev["fields"] if f["vis"] == "private" and not all(f[k] for k in ("getter", "with", "getterok", "withok", "bset"))]
                c.report("C07:law:%s" % (",".join(bad) or (badf and ",".join(badf[0][1])) or "api"), dict(shapes=[sh] if sh else []),
                         "struct %s: laws failing %s, fields failing %s, methods %s, panics %s" % (ev["name"], bad, badf, sorted(ev["has"]), ev["panics"][:2]))
    finally:
        sc.close()


def fields_text(sh):
    return "{" + "; ".join("%s %s" % (f["name"] or "(embedded)", f["typ"]) for f in sh["fields"]) + "}"


def classify(msg):
    for key in ("nil pointer", "index out of range", "panic", "undefined", "cannot use", "declared and not used", "redeclared", "syntax error", "mismatched types"):
        if key in msg:
            return key.replace(" ", "-")
    return "other"
