"""C08 - gombok @fp.Derive instances compile, are lawful and field-wise, and are resolved by the documented precedence.

(A) TLC (Derive.tla): composing field instances one hlist.Cons at a time - what eq/ord/hash/monoid.HCons and TupleN do - gives,
    for every choice of field instances (identity / coarse equality, ascending / descending order, two monoids) and every
    value triple, exactly the conjunction of the field equalities, a hash respecting it, the lexicographic order in
    declaration order (a lawful strict order consistent with the equality) and the field-by-field monoid with its laws.
(B) seeded scratch packages of types and @fp.Derive directives (Eq, Ord, Hashable, Monoid, Clone; @fp.Value structs and plain
    public structs; nested structs; generic structs with one and two parameters, a phantom parameter; recursion through pointers
    and slices of pointers; 23 fields = the hlist path; recursive=true over a struct without directive; field types with
    overriding instances in the working package, in the package of the type, in both, in neither) are run through gombok
    built from the working tree (twice, byte-identical), go vet and go build together with a registry that calls every
    instance under its documented name with one instance argument per type parameter actually needed, and a driver comparing
    every derived instance with the field-by-field reference the harness wrote from the documented naming rule, on 150 seeded
    value triples with controlled differences.  Overriding instances are semantically different from the derive package's
    (equality modulo 10, descending order, product) and count their uses; TLC (TraceDerive) accepts an observation only if
    all laws agreed, the instance Derive!Resolve selects was used and a shadowed one was not.
"""
import json
import os
import random
import shutil

import c07
import derivelib as D
import gomboklib as G
import vf


def run_package(c, sc, pkg, structs, order, seed, over=None):
    """a failing stage is confirmed by a second run of the same package (see c07.run_package)"""
    evs = _run_package_once(c, sc, pkg, structs, order, seed, over)
    g = evs[0]
    if g["deterministic"] and not (g["gombok"] and g["build"] and g["vet"] and g["driver"]):
        shutil.rmtree(os.path.join(sc.root, pkg), ignore_errors=True)
        evs2 = _run_package_once(c, sc, pkg, structs, order, seed, over)
        g2 = evs2[0]
        if g2["gombok"] and g2["build"] and g2["vet"] and g2["driver"]:
            c.extra["unrepeated_stage_failures"] = c.extra.get("unrepeated_stage_failures", []) + [dict(pkg=pkg, msg=g.get("msg", "")[-300:])]
        return evs2
    return evs


def _run_package_once(c, sc, pkg, structs, order, seed, over=None):
    types_go, registry = D.go_source(pkg, structs, order, over)
    if not os.path.exists(os.path.join(sc.root, "other")):
        os.makedirs(os.path.join(sc.root, "other"))
        with open(os.path.join(sc.root, "other", "types.go"), "w") as fh:
            fh.write(D.other_source())
    sc.package(pkg, types_go, {"registry_test.go": registry})
    gen = dict(e="Generate", pkg=pkg, gombok=False, build=False, vet=False, driver=False, deterministic=True, msg="")
    rc, out = sc.generate(pkg, gomaxprocs=1)
    if rc != 0:
        gen["msg"] = out[-900:]
        return [gen]
    gen["gombok"] = True
    d = os.path.join(sc.root, pkg)
    first = {f: open(os.path.join(d, f), "rb").read() for f in sorted(os.listdir(d)) if f.endswith("_generated.go")}
    for f in first:
        os.remove(os.path.join(d, f))
    rc2, _ = sc.generate(pkg, gomaxprocs=16)
    second = {f: open(os.path.join(d, f), "rb").read() for f in sorted(os.listdir(d)) if f.endswith("_generated.go")}
    gen["deterministic"] = rc2 == 0 and first == second
    ok_b, ok_v, msg = sc.build(pkg, derive=True)
    gen["build"], gen["vet"] = ok_b, ok_v
    if not ok_b or not ok_v:
        gen["msg"] = msg[-900:]
        return [gen]
    rc, out, events = sc.drive(pkg, seed, test="TestVerifDerive")
    want = sum(len(structs[n]["classes"]) for n in order)
    gen["driver"] = rc == 0 and len([e for e in events if e["e"] == "Derived"]) == want
    if not gen["driver"]:
        gen["msg"] = out[:900]
    return [gen] + events


def closure(structs, names):
    """the named structs plus everything their fields mention, in declaration order"""
    need = set()

    def visit(t):
        if t[0] in ("struct", "emb"):
            if t[1] in structs:
                add(t[1])
            for x in (t[2] if len(t) > 2 and isinstance(t[2], tuple) else ()):
                visit(x)
        elif len(t) > 1 and isinstance(t[1], tuple):
            visit(t[1])

    def add(n):
        if n in need:
            return
        need.add(n)
        for _, t in structs[n]["fields"]:
            visit(t)
    for n in names:
        add(n)
    return need


def run(c):
    c.tlc_expect_clean("Derive", "MCDerive3" if c.thorough else "MCDerive", timeout=2400)
    rng = random.Random(c.seed)
    sc = G.Scratch(c)
    try:
        packages = []
        if c.replay:
            rp = json.load(open(c.replay))
            structs = {k: dict(v, fields=[(f[0], totuple(f[1])) for f in v["fields"]]) for k, v in rp["structs"].items()}
            packages = [("rp", structs, rp["order"])]
        else:
            st, order = D.special_structs()
            packages.append(("pd0", st, order))
            # local instances for composite / library types: a generic EqSlice / CloneSlice, time.Duration under both name forms
            ost, oorder = D.override_structs()
            packages.append(("pdo", ost, oorder, dict(slice=True, dur="Duration")))
            packages.append(("pdq", ost, oorder, dict(dur="TimeDuration")))
            ist, iorder = D.import_structs()
            packages.append(("pdi", ist, iorder, dict(importord=True)))
            n_pk = 2 if c.tier == "quick" else 16
            for i in range(n_pk):
                rs, ro = D.gen_structs(rng, 24)
                packages.append(("pd%d" % (i + 1), rs, ro))
        allev = []
        info = {}
        for pk in packages:
            pkg, structs, order = pk[:3]
            over = pk[3] if len(pk) > 3 else None
            evs = run_package(c, sc, pkg, structs, order, c.seed, over)
            g = evs[0]
            if not (g["gombok"] and g["build"] and g["vet"] and g["driver"] and g["deterministic"]) and len(order) > 1:
                # find the structs that break the package: each struct alone with what it depends on
                culprits = []
                for n in order:
                    if structs[n].get("nodirective"):
                        continue
                    need = closure(structs, [n])
                    sub = [m for m in order if m in need]
                    sst = {m: (structs[m] if m == n else dict(structs[m])) for m in sub}
                    e1 = run_package(c, sc, "iso" + n.lower(), sst, sub, c.seed, over)
                    shutil.rmtree(os.path.join(sc.root, "iso" + n.lower()), ignore_errors=True)
                    g1 = e1[0]
                    if not (g1["gombok"] and g1["build"] and g1["vet"] and g1["driver"] and g1["deterministic"]):
                        if not any(set(sub) > set(csub) for _, csub, _ in culprits):
                            g1["culprit"] = n
                            culprits.append((n, sub, e1))
                bad = set()
                for n, sub, e1 in culprits:
                    e1[0]["structs"] = {m: structs[m] for m in sub}
                    e1[0]["order"] = sub
                    allev += e1[:1]
                    bad.add(n)
                if culprits:
                    keep = [m for m in order if not (closure(structs, [m]) & bad)]
                    evs = run_package(c, sc, pkg + "r", {m: structs[m] for m in keep}, keep, c.seed, over) if keep else []
                else:
                    evs[0]["structs"] = structs
                    evs[0]["order"] = order
            for e in evs:
                e.setdefault("pkg", pkg)
            for n in order:
                info[(pkg, n)] = (structs, order)
                info[(pkg + "r", n)] = (structs, order)
            allev += evs
            shutil.rmtree(os.path.join(sc.root, pkg), ignore_errors=True)
        path = os.path.join(c.tmp, "derive.ndjson")
        with open(path, "w") as fh:
            tr = 1
            for e in allev:
                e["tr"] = tr
                if e["e"] != "DObs":
                    tr += 1
                fh.write(json.dumps(e) + "\n")
        der = [e for e in allev if e["e"] == "Derived"]
        c.cov["evaluations"] += sum(e["iters"] for e in der)
        c.cov["distinct_nontrivial"] = len([e for e in der if e["nf"] >= 2])
        c.extra["derived_instances"] = len(der)
        c.extra["by_class"] = {k: len([e for e in der if e["cls"] == k]) for k in D.CLASSES}
        c.extra["with_override_candidates"] = len([e for e in der if e["cands"]])
        c.extra["witness_pairs"] = sum(e["witness"] for e in der)
        c.extra["comparisons_decided_by_spec"] = len([e for e in allev if e["e"] == "DObs"])
        c.cov["evaluations"] += c.extra["comparisons_decided_by_spec"]
        c.cov["rule"] = ("one case = one derived instance (struct x typeclass) compared with its field-by-field reference on 150 value "
                         "triples; non-trivial = at least two fields (order and cross-field mix-ups are possible)")
        for e in der[:3]:
            c.sample(dict(struct=e["struct"], cls=e["cls"], fields=e["nf"], used=e["used"]))
        for rej in c.validate(path, "TraceDerive", max_rejects=30):
            ev = rej["line"]
            if ev["e"] == "DObs":
                structs, order = info.get((ev["pkg"], ev["struct"]), ({}, []))
                need = closure(structs, [ev["struct"]]) if structs else set()
                sub = [m for m in order if m in need]
                c.report("C08:%s:composition" % ev["cls"], dict(structs={m: structs[m] for m in sub}, order=sub),
                         "derived %s instance of %s: field verdicts eq=%s less=%s, instance says %s - not the composition Derive.tla defines" % (
                             ev["cls"], ev["struct"], ev.get("feq"), ev.get("fless"), {k: ev[k] for k in ("got", "goteq", "hasheq") if k in ev}))
                continue
            if ev["e"] == "Generate":
                what = [k for k in ("gombok", "build", "vet", "driver", "deterministic") if not ev[k]]
                structs, order = ev.get("structs") or {}, ev.get("order") or []
                c.report("C08:generate:%s:%s" % (what[0], c07.classify(ev.get("msg", ""))), dict(structs=structs, order=order),
                         "derive package %s fails at stage %s (struct %s): %s" % (ev.get("pkg"), what[0], ev.get("culprit", "?"), ev.get("msg", "")[-400:].replace("\n", " | ")))
            else:
                structs, order = info.get((ev["pkg"], ev["struct"]), ({}, []))
                need = closure(structs, [ev["struct"]]) if structs else set()
                sub = [m for m in order if m in need]
                bad = [k for k, v in ev["ok"].items() if not v]
                c.report("C08:%s:%s" % (ev["cls"], ",".join(bad) or ("panic" if ev["panicked"] else "resolution")), dict(structs={m: structs[m] for m in sub}, order=sub),
                         "derived %s instance of %s: failing %s; counters used %s for candidates %s; %s %s" % (
                             ev["cls"], ev["struct"], bad, ev["used"], [(x["ty"], x["local"], x["typepkg"]) for x in ev["cands"]], "; ".join(ev["detail"])[:500], ev["panicked"][:200]))
    finally:
        sc.close()


def totuple(x):
    return tuple(totuple(y) if isinstance(y, list) else y for y in x)
