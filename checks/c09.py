import aritylib
"""C09 - Eq instances are equivalences and Hashable agrees with Eq.

(A) TLC (Typeclass.tla): SemEq - "the compared components are pairwise equal", with nil/empty containers and distinct
    pointers to equal targets identified - is reflexive, symmetric and transitive on all triples of twelve universes.
(B)/(C) for 80 instance expressions of the real eq and hash packages (Given, String, Bytes, Option, Seq, Slice, Ptr, PtrGiven,
    GoMap, FpMap, ContraMap, New, Tuple1..21, HCons/HNil, nested to depth 4) a seeded universe of values containing distinct
    representations of equal values is built; the full Eqv matrix, the hash equality classes and hash determinism (repeated
    calls, freshly built equal values) are logged; TLC accepts only Eqv = SemEq and SemEq => equal hashes.
"""
import random

import tclib
import tcrun


def run(c):
    if c.replay:
        return tcrun.replay(c, "C09")
    rng = random.Random(c.seed)
    c.tlc_expect_clean("Typeclass", "MCTypeclass")
    # the TupleN instances of this typeclass at every arity 2..21 (position-tagged arguments, judged by Arity.tla)
    aritylib.family_subrun(c, "C09", ["eq.Tuple", "hash.Tuple"])
    cases = []
    for rep in range(4 if c.thorough else 1):
        cases += tclib.cases("eq", rng, per_type=12 if c.thorough else 10) + tclib.cases("hash", rng, per_type=12 if c.thorough else 10)
        for ty, t in (("ptr_int_#given", ("ptr", ("int",))), ("ptr_str_#given", ("ptr", ("str",))), ("wrap_int_#field", ("wrap", ("int",))),
                      ("int#new", ("int",)), ("int#cmp", ("int",))):
            cases.append(dict(ty=ty, what="eq", vals=tclib.universe(t, rng, 8, [0])))
        cases.append(dict(ty="int#new", what="hash", vals=tclib.universe(("int",), rng, 8, [0])))
    tcrun.run_cases(c, "C09", cases, "c09")
    c.cov["rule"] = ("one case = one instance expression of the real library with a universe of 6-12 abstract values (full Eqv matrix, hash "
                     "classes); non-trivial = the universe contains two representations of one value (nil/empty, two pointers) or a product type")
    c.assumptions += ["NaN and time.Time are not in the universes; hash values are never predicted, only compared"]
