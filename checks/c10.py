import aritylib
"""C10 - Ord instances are strict total orders; sorting is an ordered permutation.

(A) TLC (Typeclass.tla): SemLess - None < Some, nil pointer first, lexicographic on sequences/tuples with the shorter prefix
    first - satisfies trichotomy with SemEq, transitivity and compatibility with SemEq on all triples of the universes.
(B)/(C) for every Ord instance expression of the real library (Given, Option, Seq, Slice, Ptr, Tuple1..21, HCons/HNil,
    ContraMap/GivenField, New, FromCompare) the matrices of Less (both ways), LessEq, Eqv, Compare, Min, Max, Reversed and
    ThenComparing over a seeded universe are logged, and Sort/Min/Max of seq, iterator and list on every input of
    length <= 5 over 3 keys with tie-distinguishable payloads; TLC accepts only what SemLess prescribes, an ordered
    permutation, an untouched input, and least/greatest elements.
"""
import itertools
import random

import tclib
import tcrun


def run(c):
    if c.replay:
        return tcrun.replay(c, "C10")
    rng = random.Random(c.seed)
    c.tlc_expect_clean("Typeclass", "MCTypeclass")
    # the TupleN instances of this typeclass at every arity 2..21 (position-tagged arguments, judged by Arity.tla)
    aritylib.family_subrun(c, "C10", ["ord.Tuple"])
    cases = []
    for rep in range(4 if c.thorough else 1):
        cases += tclib.cases("ord", rng, per_type=12 if c.thorough else 10)
        for ty, t in (("wrap_int_#field", ("wrap", ("int",))), ("int#new", ("int",)), ("int#cmp", ("int",)), ("int#cmpmag", ("int",))):
            cases.append(dict(ty=ty, what="ord", vals=tclib.universe(t, rng, 8, [0])))
    # every key sequence of length <= 5 (thorough: 6) over 3 keys; the payload is the original position
    for n in range(0, 7 if c.thorough else 6):
        for keys in itertools.product(range(3), repeat=n):
            cases.append({"what": "sort", "in": [[k, i] for i, k in enumerate(keys)]})
    for _ in range(200 if c.thorough else 40):
        n = rng.randint(6, 200)
        cases.append({"what": "sort", "in": [[rng.randint(-5, 5), i] for i in range(n)]})
    # the same over a nillable element type (*int under ord.Ptr, nil first; key -1 = nil)
    for n in range(0, 5):
        for keys in itertools.product((-1, 0, 1), repeat=n):
            cases.append({"what": "sortptr", "in": [[k, 0] for k in keys]})
    for _ in range(60 if c.thorough else 15):
        cases.append({"what": "sortptr", "in": [[rng.choice([-1, -1, 0, 1, 2, 3]), 0] for _ in range(rng.randint(5, 40))]})
    tcrun.run_cases(c, "C10", cases, "c10")
    c.cov["rule"] = ("cases = Ord instance expressions with universes (all comparison matrices) and Sort/Min/Max inputs (every key sequence "
                     "of length <= 5 over 3 keys + random long ones); non-trivial = product/sequence types or inputs with >= 2 elements")
    c.assumptions += ["Sort need not be stable; Min/Max may return any least/greatest element"]
