"""C11 - Monoid/Semigroup instances are lawful; Reduce/FoldMap equal the plain fold.

(A) TLC (Monoid.tla): the meaning of every instance - Sum adds, Product multiplies, All/Any, concatenation, right-biased unions,
    Option/Try inside, neutral-absent semigroups, componentwise products, Dual flips, Eval/IMap transport - is associative with a
    two-sided identity on all triples of its universes.
(B)/(C) for 33 instances of the real monoid and semigroup packages the full Combine table, Empty, (a+b)+c vs a+(b+c) on every
    triple and Empty+a / a+Empty are logged over seeded universes, and Reduce/FoldMap of seq, iterator and list on all
    sequences of length <= 4 (non-commutative String, Dual, MergeSeq, ... included); TLC (TraceMonoid) accepts only the meaning
    of Monoid.tla, real associativity and identity, and results equal to the left fold of Combine from Empty.
"""
import itertools
import json
import random

import aritylib
import vf


def I(n): return dict(t="int", n=n)
def S(s): return dict(t="str", cs=[ord(ch) for ch in s])
def seq(xs, nil=False): return dict(t="seq", xs=xs, nil=nil)
def mp(d, nil=False): return dict(t="map", ks=sorted(d), vs=[d[k] for k in sorted(d)], nil=nil)
def ptr(v, i): return dict(t="ptr", id=i, v=v)


STRS = [S(""), S("a"), S("b"), S("ab"), S("ba")]
INTS = [I(0), I(1), I(2), I(-1), I(3)]
BOOLS = [I(0), I(1)]
NONE, NILP = dict(t="none"), dict(t="nilptr")


def universes(rng):
    u = {}
    for m in ("sum", "product", "sg.sum"):
        u[m] = INTS
    for m in ("string", "dual(string)", "eval(string)", "sg.dual(string)", "sg.eval(string)"):
        u[m] = STRS
    for m in ("any", "all", "sg.any", "sg.all"):
        u[m] = BOOLS
    u["unit"] = [I(0)]
    u["option(sum)"] = [NONE] + [dict(t="some", v=x) for x in INTS[:4]]
    u["option(string)"] = u["sg.option(string)"] = [NONE] + [dict(t="some", v=x) for x in STRS[:4]]
    u["try(string)"] = [dict(t="some", v=x) for x in STRS[:4]] + [dict(t="wrap", v=I(1)), dict(t="wrap", v=I(2))]
    seqs = [seq([], True), seq([]), seq([I(1)]), seq([I(2)]), seq([I(1), I(2)]), seq([I(2), I(1)]), dict(t="seq", xs=[I(1), I(2)], nil=False, cap=3),
            dict(t="seq", xs=[], nil=False, cap=2)]
    u["mergeseq"] = u["mergeslice"] = seqs
    maps = [mp({}), mp({1: I(1)}), mp({1: I(2)}), mp({2: I(5)}), mp({1: I(0), 2: I(1)}), mp({3: I(3)})]
    u["mergegomap"] = maps + [mp({}, True)]
    u["mergemap"] = maps
    big = {k: I(k % 4) for k in range(1, 11)}
    u["mergemap#collide"] = [mp({}), mp(big), mp({4: I(9), 7: I(8)}), mp({1: I(5)}), mp({k: I(1) for k in (2, 5, 8, 11)}), mp({10: I(3), 13: I(1)})]
    u["mergeset"] = [mp({}), mp({1: I(1)}), mp({2: I(1)}), mp({1: I(1), 2: I(1)}), mp({3: I(1)})]
    u["ptr(sum)"] = u["sg.ptr(sum)"] = [NILP, ptr(I(0), 1), ptr(I(1), 2), ptr(I(2), 3), ptr(I(1), 4)]
    u["ptr(string)"] = [NILP, ptr(S(""), 1), ptr(S("a"), 2), ptr(S("b"), 3)]
    tups = [dict(t="tup", xs=[a, b]) for a in INTS[:3] for b in STRS[:3]]
    u["tuple(sum,string)"] = u["hcons(sum,string)"] = rng.sample(tups, 6)
    u["imap(sum)"] = u["sg.imap(sum)"] = [dict(t="wrap", v=x) for x in INTS[:4]]
    fns = [S(n) for n in ("id", "inc", "dbl", "neg", "sq")]
    u["endo"] = u["sg.endo"] = u["dual(endo)"] = fns
    return u


def classify(rej):
    ev = rej["line"]
    if ev["e"] == "Monoid":
        return "combine-or-laws:" + ev["mx"]
    if ev["e"] == "Reduce":
        return "%s:%s" % (ev["impl"], ev["mx"])
    return ev["e"].lower() + ":" + str(ev.get("ty"))


def run(c):
    rng = random.Random(c.seed)
    if c.replay:
        rp = json.load(open(c.replay))
        if rp.get("kind") == "arity":
            aritylib.family_subrun(c, "C11", ["monoid.Tuple"])
            return
        _, out = c.harness("tcm", [rp["case"]], name="replay")
        rej = c.validate(out, "TraceMonoid", max_rejects=1)
        if rej:
            c.report("C11:" + classify(rej[0]), dict(case=rp["case"]), "replayed: %s" % json.dumps({k: v for k, v in rej[0]["line"].items() if k in ("e", "mx", "impl", "out")})[:300])
        return
    c.tlc_expect_clean("MCMonoid", "MCMonoid")
    # the TupleN instances of this typeclass at every arity 2..21 (position-tagged arguments, judged by Arity.tla)
    aritylib.family_subrun(c, "C11", ["monoid.Tuple"])
    u = universes(rng)
    order = ["endo", "sg.endo", "dual(endo)"] + [m for m in u if "endo" not in m]
    cases = []
    maxlen = 5 if c.thorough else 4
    for m in order:
        vals = u[m]
        seqs = []
        if not m.startswith("sg."):
            base = vals[:3] if len(vals) >= 3 else vals
            for n in range(0, maxlen + 1):
                for xs in itertools.product(base, repeat=n):
                    seqs.append(list(xs))
            if len(seqs) > 200:
                seqs = seqs[:41] + rng.sample(seqs[41:], 159)
        cases.append(dict(mx=m, vals=vals, seqs=seqs))
    summary, out = c.harness("tcm", cases, timeout=3000)
    c.cov["evaluations"] += summary["events"]
    c.extra["instances"] = summary["monoids"]
    c.cov["distinct_nontrivial"] = sum(1 for cs in cases for s in cs["seqs"] if len(s) >= 2) + len(cases)
    c.cov["rule"] = ("one case = one Monoid/Semigroup instance of the real library with its universe (full Combine table, all triples for "
                     "associativity, identity) plus every input sequence of length <= 4 over three values for Reduce/FoldMap of seq, iterator and "
                     "list; non-trivial = sequences of length >= 2 and every instance table")
    c.sample(dict(mx="string", vals=STRS[:3], seqs=[[S("a"), S("b")]]))
    c.assumptions += ["functions are compared extensionally on the domain {0,1,2,-3}; integer overflow and floats are not exercised",
                      "Endo may compose in either order as long as it is consistent and Dual(Endo) uses the other one"]
    rejected = c.validate(out, "TraceMonoid", max_rejects=30, timeout=3000)
    classes = set()
    for rej in rejected:
        k = classify(rej)
        c.extra.setdefault("rejected_by_class", {}).setdefault(k, 0)
        c.extra["rejected_by_class"][k] += 1
        if k in classes:
            continue
        classes.add(k)
        case = cases[rej["tr"]]
        # Endo's order is fixed by the first endo event: keep it in front when re-running a Dual(Endo) case
        rerun = ([cases[0]] if case["mx"] == "dual(endo)" else []) + [case]
        _, o2 = c.harness("tcm", rerun, name="confirm")
        again = c.validate(o2, "TraceMonoid", max_rejects=1)
        if not again:
            raise vf.Infra("rejected monoid observation did not reproduce")
        ev = again[0]["line"]
        c.report("C11:" + classify(again[0]), dict(case=case), "the real instance disagrees with Monoid.tla (%s): %s" % (
            classify(again[0]), json.dumps({k2: v for k2, v in ev.items() if k2 in ("e", "mx", "impl", "xs", "out", "empty")})[:400]))
