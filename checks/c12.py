"""C12 - Iterator and lazy List combinators agree with eager Seq semantics and terminate.

(A) TLC: SeqSpec laws (the eager reference); Stream.tla: the look-ahead machines of iterator.go produce the eager
    output and respect the demand bound under every call pattern (the prefetching Filter is rejected).
(C) seeded pipelines of several combinators over instrumented sources - finite ones and unbounded generators with
    a pull budget - are run on the real library under varied demand patterns; outputs, pull counts and budget
    overruns are logged and TLC (TraceIter) accepts a log only if the output is the eager reference (SeqSpec), the
    pull count stays within  max(pulled0, Need(demand)) + 2 per stage,  and a budget overrun was unavoidable.
    Iterator, list and seq implementations of the same operations are also compared through SeqStore (C04's store).
"""
import random

import iterlib


def run(c):
    if c.replay:
        return iterlib.replay(c, "C12")
    rng = random.Random(c.seed)
    c.tlc_expect_clean("SeqStore", "MCSeqStore")
    c.tlc_expect_clean("MCStream", "MCStream")
    neg = c.tlc_expect_violation("MCStream", "MCStreamNeg")
    c.extra["negative_config_rejected"] = neg.violated
    k = 16 if c.thorough else 1
    gens = [dict(kind="pipelines", n=2500 * k, seed=rng.getrandbits(40), depth=3, len=7, calls=12),
            dict(kind="pipelines", n=500 * k, seed=rng.getrandbits(40), depth=6, len=10, calls=16),
            dict(kind="unbounded", n=1500 * k, seed=rng.getrandbits(40), depth=3, len=0, calls=10),
            dict(kind="twosided", n=600 * k, seed=rng.getrandbits(40), depth=1, len=7, calls=16),
            dict(kind="listwalk", n=1500 * k, seed=rng.getrandbits(40), depth=1, len=6, calls=14)]
    out = iterlib.run_cases(c, "C12", gens, "c12")
    iterlib.count_nontrivial(c, out, "cases = (pipeline of 1-6 combinators, source or unbounded generator, demand pattern) run on the "
                             "real library; non-trivial = unbounded source or a demand pattern that is not plain HasNext/Next alternation")
    c.assumptions += ["element type int; the source is an instrumented fp.MakeIterator counting Next calls"]
