"""C13 - generators are deterministic and committed generated code is their fixpoint.

Level: translation_validation.  GenFix.tla states the property as a tiny transition system (a generator pass must be a
stuttering step on the digest tree, every pass writes the same bytes, every generated file has an owner); the verdict comes
from real generator runs: a scratch copy of /repo's working tree (outside /repo and /verif, removed afterwards), the three
generators built FROM THAT COPY, every go:generate directive executed the way `go generate` does (cwd, GOPACKAGE, GOFILE,
GOLINE) - repeatedly, under different GOMAXPROCS (each process re-randomises Go map iteration), and again on top of the
regenerated tree.  Every pass is logged with the SHA-256 of every Go file; TLC (TraceGenFix) accepts only fixpoint passes.
"""
import hashlib
import json
import os
import re
import shutil
import subprocess
import tempfile
import time

import vf

LEVEL = "translation_validation"
HEADER = re.compile(r"^// Code generated .*DO NOT EDIT", re.M)


def digests(root):
    out = {}
    for d, dirs, files in os.walk(root):
        dirs[:] = [x for x in dirs if x != ".git"]
        for f in files:
            if f.endswith(".go"):
                p = os.path.join(d, f)
                out[os.path.relpath(p, root)] = hashlib.sha256(open(p, "rb").read()).hexdigest()[:16]
    return out


def directives(root):
    res = []
    for d, dirs, files in os.walk(root):
        dirs[:] = [x for x in dirs if x != ".git"]
        for f in sorted(files):
            if not f.endswith(".go"):
                continue
            p = os.path.join(d, f)
            src = open(p, encoding="utf-8", errors="replace").read()
            pkg = re.search(r"^package\s+(\w+)", src, re.M)
            for i, line in enumerate(src.splitlines(), 1):
                m = re.match(r"^//go:generate\s+go run\s+(\S+)(.*)$", line)
                if m:
                    res.append(dict(dir=d, file=f, line=i, pkg=pkg.group(1) if pkg else "", tool=m.group(1), args=m.group(2).split()))
    return sorted(res, key=lambda r: (r["dir"], r["file"], r["line"]))


SHRINK_SRC = '''package verifshrink

import "github.com/csgura/fp/genfp"

//go:generate go run github.com/csgura/fp/internal/generator/template_gen

// @internal.Generate
var _ = genfp.GenerateFromUntil{
	File:  "a_gen.go",
	From:  1,
	Until: 3,
	Template: `
func A{{.N}}() int { return {{.N}} }
`,
}

// @internal.Generate
var _ = genfp.GenerateFromUntil{
	File:  "b_gen.go",
	From:  2,
	Until: %d,
	Template: `
func B{{.N}}() int { return {{.N}} }
`,
}
'''

REPEAT_SRC = '''package verifrepeat

import (
	rf "reflect"

	"github.com/csgura/fp"
	"github.com/csgura/fp/test/internal/verifrepeat/as"
	"github.com/csgura/fp/test/internal/verifrepeat/option"
)

//go:generate go run github.com/csgura/fp/cmd/gombok

// field types that mention a user package named like one the generated file imports itself TOGETHER WITH a package the
// source imports under an alias: which names end up in the generated file must not depend on map iteration order

// First makes the generated file import fp's own packages (as, option) before the structs below are rendered
//
// @fp.Value
type First struct {
	n int
	o fp.Option[int]
}

// @fp.Value
// @fp.Json
// @fp.GenLabelled
type Mixed struct {
	kinds  map[as.Code]rf.Kind
	opts   map[option.Kind]rf.Kind
	o      fp.Option[rf.Kind]
	plain  int
	marks  []as.Code
	both   fp.Tuple2[as.Code, rf.Kind]
}

// @fp.Value
type Second struct {
	k rf.Kind
	c as.Code
}
'''


def scratch_scenarios(c, root, bins, env):
    """two scenarios inside the scratch copy of the repository (the generators are internal packages of the module)"""
    events = []
    tg = next((b for t, b in bins.items() if t.endswith("template_gen")), None)
    gb = next((b for t, b in bins.items() if t.endswith("cmd/gombok")), None)

    def listing(d, suffix):
        return sorted([f, hashlib.sha256(open(os.path.join(d, f), "rb").read()).hexdigest()[:16]] for f in os.listdir(d) if f.endswith(suffix))

    if tg:
        d = os.path.join(root, "test", "internal", "verifshrink")
        os.makedirs(d)

        def gen(until):
            with open(os.path.join(d, "types.go"), "w") as fh:
                fh.write(SHRINK_SRC % until)
            r = subprocess.run([tg], cwd=d, env=dict(env, GOPACKAGE="verifshrink", GOFILE="types.go", GOLINE="5"), capture_output=True, text=True, timeout=300)
            if r.returncode != 0:
                raise vf.Infra("template_gen failed on the scratch package: " + (r.stderr or r.stdout)[-300:])
        gen(4)
        if len(listing(d, "_gen.go")) != 2:
            raise vf.Infra("scratch shrink scenario: step 1 did not generate two files")
        gen(2)                      # the range of b_gen.go is empty now
        ontop = listing(d, "_gen.go")
        for f, _ in ontop:
            os.remove(os.path.join(d, f))
        gen(2)
        clean = listing(d, "_gen.go")
        events.append(dict(e="Shrink", tr=0, ontop=ontop, clean=clean))
        shutil.rmtree(d, ignore_errors=True)
    if gb:
        d = os.path.join(root, "test", "internal", "verifrepeat")
        for sub, body in (("as", "type Code int\n"), ("option", "type Kind int\n")):
            os.makedirs(os.path.join(d, sub))
            with open(os.path.join(d, sub, sub + ".go"), "w") as fh:
                fh.write("package %s\n\n%s" % (sub, body))
        with open(os.path.join(d, "types.go"), "w") as fh:
            fh.write(REPEAT_SRC)
        digs, ok, msg = [], True, ""
        for k in range(10 if c.thorough else 6):
            for f in os.listdir(d):
                if f.endswith("_generated.go"):
                    os.remove(os.path.join(d, f))
            r = subprocess.run([gb], cwd=d, env=dict(env, GOPACKAGE="verifrepeat", GOFILE="types.go", GOLINE="11", GOMAXPROCS=str([1, 16, 3, 7][k % 4])),
                               capture_output=True, text=True, timeout=300)
            if r.returncode != 0:
                ok, msg = False, (r.stderr or r.stdout)[-300:]
                break
            digs.append(json.dumps(listing(d, "_generated.go")))
        b = subprocess.run(["go", "build", "./test/internal/verifrepeat/"], cwd=root, env=env, capture_output=True, text=True)
        if ok and b.returncode != 0:
            ok, msg = False, "generated package does not compile: " + b.stderr[-300:]
        short = [hashlib.sha256(x.encode()).hexdigest()[:8] for x in digs]
        events.append(dict(e="Repeat", tr=0, ok=ok, digests=short or ["none"], msg=msg))
        shutil.rmtree(d, ignore_errors=True)
    c.extra["scratch_scenarios"] = [e["e"] for e in events]
    return events


def run(c):
    env = dict(os.environ, **vf.GOENV)
    scratch = tempfile.mkdtemp(prefix="verif-c13-repo-")
    try:
        root = os.path.join(scratch, "repo")
        subprocess.run(["rsync", "-a", "--exclude", ".git", vf.REPO + "/", root + "/"], check=True)
        ds = directives(root)
        tools = sorted({d["tool"] for d in ds})
        bins = {}
        for t in tools:
            b = os.path.join(scratch, "bin", t.split("/")[-1])
            p = subprocess.run(["go", "build", "-o", b, t], cwd=root, env=env, capture_output=True, text=True)
            if p.returncode != 0:
                raise vf.Infra("generator %s does not build: %s" % (t, p.stderr[-500:]))
            bins[t] = b
        before = digests(root)
        generated = sorted(p for p in before if HEADER.search(open(os.path.join(root, p), encoding="utf-8", errors="replace").read(2000)))
        events = [dict(e="Init", tr=0, files=sorted(before.items()), generated=generated)]
        c.extra["directives"] = len(ds)
        c.extra["generated_files"] = len(generated)
        passes = [dict(gomaxprocs="16", only=None), dict(gomaxprocs="1", only="gombok")] if not c.thorough else \
                 [dict(gomaxprocs="16", only=None), dict(gomaxprocs="1", only=None), dict(gomaxprocs="3", only=None), dict(gomaxprocs="7", only=None)]
        disagreements = 0
        for k, ps in enumerate(passes):
            old = time.time() - 10 * 365 * 86400
            for p in before:
                os.utime(os.path.join(root, p), (old, old))
            failed = []
            for d in ds:
                if ps["only"] and not d["tool"].endswith(ps["only"]):
                    continue
                e2 = dict(env, GOPACKAGE=d["pkg"], GOFILE=d["file"], GOLINE=str(d["line"]), GOMAXPROCS=ps["gomaxprocs"], GOARCH=env.get("GOARCH", "amd64"), GOOS="linux")
                r = subprocess.run([bins[d["tool"]]] + d["args"], cwd=d["dir"], env=e2, capture_output=True, text=True, timeout=600)
                if r.returncode != 0:
                    failed.append("%s:%d %s" % (os.path.relpath(os.path.join(d["dir"], d["file"]), root), d["line"], (r.stderr or r.stdout)[-200:]))
            after = digests(root)
            written = sorted(p for p in after if os.path.getmtime(os.path.join(root, p)) > old + 86400)
            events.append(dict(e="Pass", tr=0, k=k, gomaxprocs=ps["gomaxprocs"], only=ps["only"] or "all", files=sorted(after.items()), written=written, failed=failed))
            diff = sorted(set(before.items()) ^ set(after.items()))
            disagreements += len({p for p, _ in diff})
            c.extra.setdefault("passes", []).append(dict(gomaxprocs=ps["gomaxprocs"], only=ps["only"] or "all", written=len(written), changed=len({p for p, _ in diff}), failed=len(failed)))
            if diff or failed:
                names = sorted({p for p, _ in diff})
                c.extra["first_difference"] = names[:10] + failed[:3]
        events.append(dict(e="End", tr=0))
        events += scratch_scenarios(c, root, bins, env)
        tracef = os.path.join(c.tmp, "genfix.ndjson")
        with open(tracef, "w") as fh:
            for e in events:
                fh.write(json.dumps(e) + "\n")
        rejected = c.validate(tracef, "TraceGenFix", max_rejects=1)
        cov = c.cov
        cov["programs"] = sum(1 for ps in passes for d in ds if not ps["only"] or d["tool"].endswith(ps["only"]))
        cov["disagreements_checked"] = disagreements
        cov["evaluations"] = cov["programs"]
        cov["distinct_nontrivial"] = len(generated)
        cov["rule"] = "programs = generator runs (directive x pass); disagreements = files whose digest differs from the committed tree after a pass"
        cov["samples"] = [dict(directive="%s:%d go run %s" % (os.path.relpath(os.path.join(d["dir"], d["file"]), root), d["line"], d["tool"])) for d in ds[:3]]
        if rejected:
            ev = rejected[0]["line"]
            if ev["e"] in ("Shrink", "Repeat"):
                sig = "scratch-" + ev["e"].lower()
                what = ("a directive whose output became empty leaves its old file behind: regenerated on top %s, from a clean directory %s" % (ev["ontop"], ev["clean"])
                        if ev["e"] == "Shrink" else
                        "gombok wrote different bytes for the same scratch package in %d runs: digests %s %s" % (len(ev["digests"]), ev["digests"], ev.get("msg", "")))
            elif ev["e"] == "Pass":
                changed = sorted({p for p, _ in set(before.items()) ^ set(map(tuple, ev["files"]))})
                sig = "pass-not-a-fixpoint:" + ",".join(changed[:4]) + ("|failed:" + ";".join(x.split(" ")[0] for x in ev["failed"][:3]) if ev["failed"] else "")
                what = "generator pass %d (GOMAXPROCS=%s, %s) is not a fixpoint: changed/created/deleted %s; failed directives %s" % (
                    ev["k"], ev["gomaxprocs"], ev["only"], changed[:8], ev["failed"][:3])
            else:
                orphans = sorted(set(generated) - {w for e in events if e["e"] == "Pass" for w in e["written"]})
                sig = "orphan-generated-files:" + ",".join(orphans[:4])
                what = "generated files that no go:generate directive writes: %s" % orphans[:10]
            c.report("C13:" + sig, dict(directives=[(os.path.relpath(d["dir"], root), d["file"], d["line"], d["tool"]) for d in ds]), what)
        c.assumptions += ["the generators are built from the scratch copy of the working tree and run sequentially in directive order; "
                          "the scratch packages of C07/C08 are regenerated twice by those checks and compared there"]
    finally:
        shutil.rmtree(scratch, ignore_errors=True)
