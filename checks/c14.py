"""C14 - arity-indexed families compute their defining equation at every arity.

(A) TLC (Arity.tla): for every family and every arity 2..21 the wiring W(fam, n) is what the family promises - the identity
    permutation, a shift by one, a projection, the reversal, a pipeline - with nothing dropped, duplicated or reordered.
(B) every member of every family found in the repository sources (703 calls: TupleN accessors, as.TupleN/HListN/FuncN/
    SupplierN/CurriedN/UnTupledN, curried.FuncN/RevertN/FlipN/FlipApplyN/SlipLN/ComposeN, hlist.OfN/CaseN/LiftN/RiftN/ReverseN,
    product.TupleN/TupleFromHListN/FlattenN/LiftN, fp.ComposeN/IdN/ApplyFirstN/ApplyLastN, fn1.MergeN, unit.FuncN and the
    eq/ord/hash/monoid/clone TupleN instances) is called with arguments of pairwise distinct types P1..Pn carrying their
    position; the tags that reach each position and the number of calls of the user functions are logged and TLC
    (TraceArity) accepts only W and Calls.  The option/try/either LiftAN/LiftMN/MapN/FlatMapN members are run with all-success
    operands tagged by position (EffectSpec decides); the space is finite and fully enumerated.
"""
import json
import random

import efflib
import vf


def run(c):
    if c.replay:
        rp = json.load(open(c.replay))
        if rp.get("kind") == "effect":
            efflib.run_and_judge(c, "C14", [rp["case"]], "replay")
            return
    rng = random.Random(c.seed)
    c.tlc_expect_clean("Arity", "MCArity")
    summary, out = c.harness("arity", [], name="arity")
    c.cov["evaluations"] += summary["members"]
    c.extra["members"] = summary["members"]
    fams = {}
    for line in open(out):
        ev = json.loads(line)
        fams.setdefault(ev["fam"], []).append(ev["n"])
    c.extra["families"] = {k: [min(v), max(v)] for k, v in sorted(fams.items())}
    c.cov["distinct_nontrivial"] = sum(1 for k, v in fams.items() for n in v if n >= 3)
    c.cov["exhaustive"] = True
    c.cov["rule"] = ("one case = one member (family, arity) of an arity-indexed family, every member present in the repository; "
                     "non-trivial = arity >= 3 (a swap of inner positions is possible)")
    for k in list(fams)[:3]:
        c.sample(dict(fam=k, arities=fams[k][:5]))
    rejected = c.validate(out, "TraceArity", max_rejects=40)
    for rej in rejected:
        ev = rej["line"]
        c.report("C14:%s%d" % (ev["fam"], ev["n"]), dict(kind="arity", member=ev),
                 "member %s%d: observed wiring %s with %d calls differs from its defining equation" % (ev["fam"], ev["n"], ev["w"], ev["calls"]))
    # the applicative / monadic families: all operands succeed and carry their position
    cases = []
    for m in ("try", "option", "either"):
        for n in range(2, 10):
            args = [dict(k="unit", v=[i + 1]) for i in range(n)]
            for fin in (dict(t="pure", id=1, c="-"), dict(t="mon", id=1, c="kid"), dict(t="none", id=0, c="-")):
                if fin["t"] == "none" and n > 6:
                    continue
                cases.append(dict(kind="expand", monad=m, seed=rng.getrandbits(30), prog=dict(k="all", args=args, fin=fin)))
    # the ApplicativeN / ChainN builders: every pattern of value / supplier / plain value / plain supplier steps
    progs = efflib.export_programs(c)
    for m in ("try", "option"):
        cases += [dict(kind="expand", monad=m, seed=rng.getrandbits(30), prog=p) for p in progs if p["k"] == "supp"]
    efflib.run_and_judge(c, "C14", cases, "c14-effect")
    c.assumptions += ["Labelled* families need fp.Named element types and are exercised through gombok output (C07); the future LiftA/LiftM "
                      "families are wired in C06"]
