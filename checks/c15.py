"""C15 - JSON round trip for Option, Unit and @fp.Json structs.

(A) TLC (JsonCodec.tla / MCJson): Enc / Dec / Faithful for every type of depth <= 3 over int, string, Unit, Option, pointer,
    slice and two-field objects with omitempty: Dec(Enc(x)) = x for every faithful x, every encoding fits its type, and the
    side condition is tight (an unfaithful value - Some(None), Some(nil) - is exactly one that does not survive).
(B) the real fp.Option / fp.Unit under encoding/json on 24 Go types (nested Options, pointers to and slices of Options, structs
    with omitempty, 64-bit extremes, strings needing escapes): TLC (TraceJson) computes Enc(ty, x) itself and accepts an
    observation only if the emitted bytes parse to exactly that, decoding yields Dec, faithful values come back equal, and
    hostile input (noise, truncations, wrong-typed documents, deep nesting; through encoding/json and by calling
    UnmarshalJSON directly) neither panics nor changes an Option / Unit target when an error is reported.
(C) @fp.Json structs from the C07 grammar (JSON-faithful field kinds, existing json tags) through gombok from the working tree:
    round trip on 25 values per struct, bytes compared with an independently written public twin struct, and hostile input
    (a wrong-typed value late in an otherwise valid document) into a pre-filled target.  TLC (TraceGombokJson) accepts.
"""
import json
import os
import random
import shutil

import c07
import gomboklib as G
import vf


def json_specials():
    def f(name, typ, kind, tag=""):
        return dict(vis="private", name=name, typ=typ, kind=kind, tag=tag)
    return [
        dict(name="JOpts", fields=[f("o1", "fp.Option[int]", "option"), f("o2", "fp.Option[string]", "option", 'json:"second"'), f("o3", "fp.Option[[]int]", "option"),
                                   f("o4", "fp.Option[Inner]", "option", 'json:"o4,omitempty"'), f("o5", "fp.Option[fp.Option[int]]", "option")], json=True, labelled=False, tparams=[]),
        dict(name="JNil", fields=[f("p", "*int", "pointer"), f("s", "[]string", "slice"), f("m", "map[string]int", "map"), f("str", "string", "basic"), f("n", "int", "basic"),
                                  f("in", "Inner", "struct"), f("pi", "*Inner", "pointer"), f("ms", "map[string]Inner", "map"), f("ss", "[]Inner", "slice")], json=True, labelled=False, tparams=[]),
        dict(name="JTags", fields=[f("a", "int", "basic", 'json:"alpha"'), f("b", "string", "basic", 'json:"beta,omitempty"'), f("c", "[]int", "slice", 'json:"c"'),
                                   f("d", "fp.Option[string]", "option", 'json:"delta"'), f("e", "bool", "basic", 'yaml:"e"')], json=True, labelled=False, tparams=[]),
        dict(name="JYaml", fields=[f("y1", "[]int", "slice", 'yaml:"y1"'), f("y2", "fp.Option[int]", "option", 'db:"y2"'), f("y3", "*int", "pointer", 'xml:"y3"'),
                                   f("y4", "string", "basic", 'yaml:"y4"'), f("y5", "map[string]int", "map", 'yaml:"y5,omitempty"'), f("y6", "int", "basic", 'yaml:"y6"')],
             json=True, labelled=False, tparams=[]),
        dict(name="JGen", fields=[f("key", "K", "typeparam"), f("val", "V", "typeparam"), f("opt", "fp.Option[V]", "option"), f("list", "[]V", "slice")], json=True, labelled=False,
             tparams=[("K", "comparable"), ("V", "any")], inst="JGen[string, int]"),
        dict(name="JOne", fields=[f("only", "[]int", "slice")], json=True, labelled=True, tparams=[]),
        dict(name="JPub", fields=[dict(vis="public", name="Pub1", typ="int", kind="basic", tag=""), f("priv", "[]string", "slice"), dict(vis="public", name="Pub3", typ="map[string]int", kind="map", tag="")],
             json=True, labelled=False, tparams=[]),
        dict(name="JBig", fields=[f("f%d" % i, ["int", "string", "[]int", "fp.Option[int]", "map[string]int"][i % 5], ["basic", "basic", "slice", "option", "map"][i % 5]) for i in range(1, 24)],
             json=True, labelled=False, tparams=[]),
    ]


def run(c):
    rng = random.Random(c.seed)
    c.tlc_expect_clean("MCJson", "MCJson")
    c.tlc_expect_clean("MCJson", "MCJsonTight")
    # (B)
    iters = 40 if c.tier == "quick" else 400
    summary, out = c.harness("c15", dict(seed=c.seed, iters=iters, fuzz=4), name="c15")
    c.cov["evaluations"] += summary["roundtrips"] + summary["fuzz"]
    c.extra["option_unit"] = summary
    nontrivial = 0
    for line in open(out):
        ev = json.loads(line)
        if ev["e"] == "RT" and ev["x"].get("v") in ("some", "ptr", "list", "obj"):
            nontrivial += 1
            if nontrivial < 3:
                c.sample(dict(gotype=ev["gotype"], bytes=ev["bytes"][:80]))
    c.cov["distinct_nontrivial"] = nontrivial
    for rej in c.validate(out, "TraceJson", max_rejects=25):
        ev = rej["line"]
        if ev["e"] == "RT":
            c.report("C15:rt:%s" % ev["gotype"], dict(kind="option", seed=c.seed, event=ev),
                     "%s value %s marshals to %s and comes back as %s (merr=%s uerr=%s panic=%s)" % (
                         ev["gotype"], json.dumps(ev["x"])[:200], ev["bytes"][:120], json.dumps(ev["back"])[:200], ev["merr"], ev["uerr"], ev["panicked"]))
        else:
            c.report("C15:fuzz:%s:%s" % (ev["gotype"], "panic" if ev["panicked"] else "changed"), dict(kind="option", seed=c.seed, event=ev),
                     "decoding %s into %s %s: err=%s panic=%s, target now %s" % (ev["input"][:120], ev["gotype"], json.dumps(ev["before"])[:120], ev["err"], ev["panicked"], json.dumps(ev["after"])[:120]))
    # (C)
    sc = G.Scratch(c)
    try:
        n = 30 if c.tier == "quick" else 300
        per = 30
        rnd = G.gen_shapes(rng, n, json_only=True, tricky=False)
        for sh in rnd:
            sh["name"] = "J" + sh["name"]
        base = [sh for sh in G.special_shapes() if sh["json"]]
        packages = [("pj0", json_specials() + base)] + [("pj%d" % (1 + i // per), rnd[i:i + per]) for i in range(0, n, per)]
        if c.replay:
            rp = json.load(open(c.replay))
            if rp.get("shapes"):
                packages = [("rp", rp["shapes"])]
        allev = []
        shape_of = {}
        for pkg, shapes in packages:
            evs = c07.run_package(c, sc, pkg, shapes, c.seed)
            if c07.bad_events(evs) and len(shapes) > 1:
                cul = c07.isolate(c, sc, shapes, c.seed, c07.bad_events)
                names = {sh["name"] for sh, _ in cul}
                for sh, e1 in cul:
                    e1[0]["shape"] = sh
                    allev += e1
                rest = [sh for sh in shapes if sh["name"] not in names]
                evs = c07.run_package(c, sc, pkg + "r", rest, c.seed) if cul and rest else evs
            for sh in shapes:
                shape_of[sh["name"]] = sh
            allev += evs
            shutil.rmtree(os.path.join(sc.root, pkg), ignore_errors=True)
        path = os.path.join(c.tmp, "gombokjson.ndjson")
        tr = 1
        details = {}
        with open(path, "w") as fh:
            for e in allev:
                e["tr"] = tr
                if e["e"] == "JsonDetail":
                    details.setdefault(e["struct"], []).append(e)
                elif e["e"] != "Op":
                    tr += 1
                fh.write(json.dumps(e) + "\n")
        structs = [e for e in allev if e["e"] == "Struct" and e["json"]]
        c.cov["evaluations"] += sum(e["iters"] + e.get("fuzz", 0) for e in structs)
        c.cov["distinct_nontrivial"] += len([e for e in structs if e["active"] >= 2])
        c.extra["json_structs"] = len(structs)
        c.extra["json_struct_fuzz_inputs"] = sum(e.get("fuzz", 0) for e in structs)
        c.extra["json_struct_fuzz_errors"] = sum(e.get("fuzzerr", 0) for e in structs)
        c.cov["rule"] = ("cases: (B) one value of one of 24 Go types around Option/Unit, non-trivial = Some / pointer / slice / object at top level; "
                         "(C) one @fp.Json struct declaration driven with 25 values and 150 hostile inputs, non-trivial = at least two active fields")
        for rej in c.validate(path, "TraceGombokJson", max_rejects=30):
            ev = rej["line"]
            if ev["e"] == "Generate":
                what = [k for k in ("gombok", "build", "vet", "driver") if not ev[k]]
                sh = ev.get("shape")
                c.report("C15:generate:%s" % what[0], dict(shapes=[sh] if sh else []), "@fp.Json struct %s fails at stage %s: %s" % (
                    sh["name"] if sh else ev.get("pkg"), what[0], ev.get("msg", "")[-300:].replace("\n", " | ")))
                continue
            sh = shape_of.get(ev["name"])
            bad = [k for k in ("json", "jsontwin", "jsonfuzz") if not ev["law"][k]]
            det = (details.get(ev["name"]) or [{}])[0]
            kinds = sorted({f["kind"] for f in ev["fields"]})
            c.report("C15:struct:%s:%s" % (",".join(bad) or "api", classify(det, sh)), dict(shapes=[sh] if sh else []),
                     "@fp.Json struct %s %s: failing %s; input %s err %s; before %s after %s twin %s" % (
                         ev["name"], c07.fields_text(sh) if sh else kinds, bad or sorted(ev["has"]), det.get("json", "")[:160], det.get("err", "")[:80],
                         det.get("before", "")[:160], det.get("after", "")[:160], det.get("twin", "")[:160]))
    finally:
        sc.close()


def classify(det, sh):
    """failure class of a changed-on-error report: which kind of field differs between before and after"""
    try:
        b, a = json.loads(det.get("before", "{}")), json.loads(det.get("after", "{}"))
    except ValueError:
        return "other"
    if not isinstance(a, dict) or not isinstance(b, dict):
        return "other"
    kinds = set()
    for k in set(a) | set(b):
        if a.get(k) != b.get(k):
            v = a.get(k, b.get(k))
            kinds.add("slice" if isinstance(v, list) else "map" if isinstance(v, dict) else "scalar")
    return "+".join(sorted(kinds)) or "other"
