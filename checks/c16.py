"""C16 - lazy.Eval: trampolined evaluation is faithful, stack-safe and run-once.

(A) TLC: EvalSpec.tla - the trampoline of lazy.go with closures as data - evaluates every program of the space L3
    (2 468 programs) to its strict value, terminates, never runs a memoised thunk twice, and applies tail-call
    chains of any length at a continuation nesting <= 3 (the model's frame bound).
(B) The program space that was model-checked is exported by TLC (with the strict values) and every program is
    built and run with the real lazy package.
(C) Seeded random programs, tail-recursive programs of depth 10..10^5 (thorough: 2*10^7) whose thunks record the Go
    stack depth, repeated Get, and concurrent getters held at a gate inside the thunk are logged; TLC (TraceEval)
    accepts a log only if every result is EvalSpec's strict value, no thunk of the program ran twice, the stack
    depth does not depend on the recursion depth, and concurrent getters saw one execution and one value.
"""
import json
import random

import vf


def classify(rej):
    ev = rej["line"]
    if ev["e"] == "Exec":
        return "deferred-computation-ran-twice"
    if ev["e"] == "Result":
        return "result-differs-from-strict-evaluation"
    if ev["e"] == "Chain":
        return "tail-chain-%s" % ev["shape"]
    if ev["e"] == "Conc":
        return "concurrent-get-%s" % ev["what"]
    return ev["e"].lower()


def run(c):
    if c.replay:
        rp = json.load(open(c.replay))
        _, out = c.harness("c16", [rp["case"]], name="replay")
        rej = c.validate(out, "TraceEval", max_rejects=1)
        if rej:
            c.report("C16:" + classify(rej[0]), dict(case=rp["case"], unexplained=rej[0]["line"]), "rejected by EvalSpec at %s" % json.dumps(rej[0]["line"]))
        return
    rng = random.Random(c.seed)
    c.tlc_expect_clean("MCEval", "MCEval", timeout=1500)
    c.tlc_expect_clean("MCEval", "MCEvalChain")
    # (B) export and replay the model-checked program space
    r = c.tlc("GenEval", "GenEval", workers=1, count=False)
    progs = json.load(open(r.dir + "/evalprogs.json"))
    cases = [dict(kind="prog", prog=p["prog"], gets=2, shape="renumber") for p in progs]
    c.extra["tlc_exported_programs"] = len(cases)
    # (C)
    cases.append(dict(kind="gen", seed=rng.getrandbits(40), count=40000 if c.thorough else 800, depth=6))
    shapes = ["plain", "mapped", "flatmapped", "evenodd", "tailcall2"]
    for n in [10, 1000, 30000]:
        for shape in shapes + ["foldright"]:
            cases.append(dict(kind="chain", n=n + (1 if shape == "evenodd" else 0), shape=shape))
    # one Eval extended several times after 0..20 chained continuations (Done / Call / TailCall bases)
    for k in range(0, 21):
        for shape in ("done", "call", "tail"):
            cases.append(dict(kind="share", n=k, shape=shape))
    # run-once when the single run panics
    for what in ("lazy.Call", "lazy.TailCall", "lazy.Memoize", "fp.Memoize", "lazy.Func1", "lazy.Call.Map"):
        cases.append(dict(kind="paniconce", what=what))
    # the deep chains run in a process of their own: exhausting the Go stack is fatal and cannot be recovered,
    # and on a tail-recursive program it is exactly the failure the property excludes
    deep = [dict(kind="chain", n=n + (1 if shape == "evenodd" else 0), shape=shape)
            for n in ([1000000, 20000000] if c.thorough else [1000000]) for shape in shapes]
    c.quiet_harness_failure = True
    try:
        s2, out2 = c.harness("c16", deep, name="deep", timeout=3000)
        c.cov["evaluations"] += s2["events"]
        for rej in c.validate(out2, "TraceEval", max_rejects=3):
            case = json.loads(rej["events"][0]["case"])
            c.report("C16:" + classify(rej), dict(case=case, unexplained=rej["line"]), "deep tail chain rejected: %s" % json.dumps(rej["line"]))
    except vf.Infra as e:
        err = getattr(e, "stderr", "")
        if "stack overflow" in err or "goroutine stack exceeds" in err:
            # which case: rerun them one by one
            for case in deep:
                try:
                    c.harness("c16", [case], name="deep1", timeout=3000)
                except vf.Infra as e2:
                    if "stack" in getattr(e2, "stderr", ""):
                        c.report("C16:tail-chain-stack-overflow-" + case["shape"], dict(case=case),
                                 "tail-recursive program of depth %d (%s) exhausted the Go stack" % (case["n"], case["shape"]))
                        break
        else:
            raise
    c.quiet_harness_failure = False
    for what in ["lazy.Call", "lazy.TailCall", "lazy.Memoize", "fp.Memoize", "list.head", "list.tail", "lazy.Func1"]:
        for n in ([2, 8, 32] if c.thorough else [2, 8]):
            for _ in range(10 if c.thorough else 3):
                cases.append(dict(kind="conc", n=n, what=what))
    summary, out = c.harness("c16", cases, timeout=3000)
    c.cov["evaluations"] += summary["events"]
    c.extra.update({k: v for k, v in summary.items() if k not in ("events", "traces")})
    seen, non = set(), 0
    for line in open(out):
        ev = json.loads(line)
        if ev["e"] != "Init":
            continue
        key = ev["case"]
        if key in seen:
            continue
        seen.add(key)
        case = json.loads(key)
        if case["kind"] != "prog" or '"fm"' in key or '"map2"' in key:
            non += 1
        if len(c.cov["samples"]) < 4 and len(seen) % 301 == 5:
            c.cov["samples"].append(case)
    c.cov["distinct_nontrivial"] = non
    c.cov["rule"] = ("cases = Eval programs (TLC-exported space + seeded random trees), tail-recursive chains, concurrent-getter "
                     "scenarios run on the real lazy package; non-trivial = contains FlatMap/Map2 (re-association), or is a chain / "
                     "concurrency case")
    c.assumptions += ["stack depth is measured with runtime.Callers inside the thunks (sampled on long chains)",
                      "concurrent getters: one is held inside the thunk at a gate while the others call Get; only timing-independent "
                      "facts (one execution, one value) are judged"]
    rejected = c.validate(out, "TraceEval", max_rejects=12, timeout=3000)
    classes = set()
    for rej in rejected:
        k = classify(rej)
        if k in classes:
            continue
        classes.add(k)
        case = json.loads(rej["events"][0]["case"])
        _, o2 = c.harness("c16", [case], name="confirm")
        again = c.validate(o2, "TraceEval", max_rejects=1)
        if not again:
            raise vf.Infra("rejected Eval execution did not reproduce")
        c.report("C16:" + classify(again[0]), dict(case=case, unexplained=again[0]["line"]),
                 "lazy.Eval execution rejected by EvalSpec: %s at %s" % (classify(again[0]), json.dumps(again[0]["line"])))
