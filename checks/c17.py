"""C17 - StateT threads state lawfully, also across failure and recovery.

(A) TLC: StateTSpec!Run is the reference semantics; the state-monad laws (Put-Get, Get-Put, Modify = Get;Put), left-to-right
    threading, "a failing step stops everything and reports the state at the point of failure" and the clauses about every
    Recover* variant are checked for every program of the space L2 (4 860 programs) x 3 initial states.
(B) The same program space is exported by TLC and every program is built with the real statet package and run.
(C) Seeded random programs (FlatMap/Map/Map2/Sequence/Concat/Traverse/FoldM/all Recover* variants, nested to depth 5) are
    run as well.  Every run logs the result, the final state, the primitive steps actually executed (in order) and each
    handler invocation with the error and state it received; TLC (TraceStateT) accepts only what StateTSpec!Run prescribes.
"""
import json
import random

import vf


def classify(rej):
    ev = rej["line"]
    if ev["e"] != "Run":
        return ev["e"].lower()
    prog = rej["events"][0]["prog"]
    kinds = set()
    def walk(p):
        kinds.add(p["k"] + (":" + p["var"] if p["k"] == "rec" else ""))
        for k in ("p", "q"):
            if k in p:
                walk(p[k])
        for q in p.get("ps", []):
            walk(q)
    walk(prog)
    return "run-differs:" + "+".join(sorted(kinds))[:80]


def run(c):
    if c.replay:
        rp = json.load(open(c.replay))
        _, out = c.harness("c17", [rp["case"]], name="replay")
        rej = c.validate(out, "TraceStateT", max_rejects=1)
        if rej:
            c.report("C17:" + classify(rej[0]), dict(case=rp["case"], unexplained=rej[0]["line"]), "run rejected by StateTSpec: %s" % json.dumps(rej[0]["line"]))
        return
    rng = random.Random(c.seed)
    r = c.tlc_expect_clean("MCStateT", "MCStateT")
    progs = json.load(open(r.dir + "/statetprogs.json"))
    cases = [dict(kind="prog", prog=p["prog"], s0=p["s0"]) for p in progs]
    c.extra["tlc_exported_programs"] = len(cases)
    cases.append(dict(kind="gen", seed=rng.getrandbits(40), count=200000 if c.thorough else 4000, depth=6 if c.thorough else 5))
    summary, out = c.harness("c17", cases, timeout=3000)
    c.cov["evaluations"] += summary["traces"]
    non, seen = 0, set()
    for line in open(out):
        ev = json.loads(line)
        if ev["e"] == "Init":
            cur = ev["case"]
        elif ev["e"] == "Run" and cur not in seen:
            seen.add(cur)
            if not ev["ok"] or ev["hs"]:
                non += 1
            if len(c.cov["samples"]) < 4 and len(seen) % 1201 == 7:
                c.cov["samples"].append(dict(case=json.loads(cur), run={k: ev[k] for k in ("ok", "v", "err", "s", "steps", "hs")}))
    c.cov["distinct_nontrivial"] = non
    c.cov["rule"] = ("programs run on the real statet package (TLC-exported space + seeded random trees); distinct = distinct program and "
                     "initial state; non-trivial = the run fails somewhere or invokes a recovery handler")
    c.assumptions += ["S = int, A = []int; errors are compared by identity of the injected error value"]
    rejected = c.validate(out, "TraceStateT", max_rejects=30, timeout=3000)
    classes = set()
    for rej in rejected:
        k = classify(rej)
        c.extra.setdefault("rejected_by_class", {}).setdefault(k, 0)
        c.extra["rejected_by_class"][k] += 1
        # one report per smallest distinguishing feature: keep the class with the fewest node kinds first
    for rej in sorted(rejected, key=lambda r: len(classify(r))):
        k = classify(rej)
        if any(set(k.split(":", 1)[1].split("+")) >= set(o.split(":", 1)[1].split("+")) for o in classes if ":" in o and ":" in k):
            continue
        classes.add(k)
        case = json.loads(rej["events"][0]["case"])
        _, o2 = c.harness("c17", [case], name="confirm")
        again = c.validate(o2, "TraceStateT", max_rejects=1)
        if not again:
            raise vf.Infra("rejected StateT run did not reproduce")
        want = "see StateTSpec!Run"
        c.report("C17:" + k, dict(case=case, observed=again[0]["line"]),
                 "StateT run differs from the reference semantics (%s): observed %s" % (k, json.dumps({x: again[0]["line"][x] for x in ("ok", "v", "err", "s", "steps", "hs")})))
