import aritylib
"""C18 - Clone instances produce equal copies that share no mutable storage.

(A) TLC (Typeclass.tla): SemEq is the equality the clone must preserve (nil and empty containers are the same value).
(B)/(C) for every Clone instance expression of the real library (Given, Ptr, Slice, Seq, GoMap, Option, Tuple2..21, HCons/HNil,
    nested to depth 4: pointer to slice of pointer to map ...) and every value of a seeded universe - nil and empty cases and
    internally aliased inputs (one pointer used twice) included - the harness clones, walks original and clone through
    reflection collecting the addresses of all pointer targets, slice arrays and maps, mutates every mutable cell reachable
    from the clone and re-reads the original (and the other way round); TLC accepts only: clone SemEq original, no shared
    address, neither side changed by mutating the other.
"""
import random

import tclib
import tcrun


def run(c):
    if c.replay:
        return tcrun.replay(c, "C18")
    rng = random.Random(c.seed)
    c.tlc_expect_clean("Typeclass", "MCTypeclass")
    # the TupleN instances of this typeclass at every arity 2..21 (position-tagged arguments, judged by Arity.tla)
    aritylib.family_subrun(c, "C18", ["clone.Tuple"])
    cases = []
    for rep in range(4 if c.thorough else 2):
        cases += tclib.cases("clone", rng, per_type=10 if c.thorough else 8)
    tcrun.run_cases(c, "C18", cases, "c18")
    c.cov["rule"] = ("one case = one Clone instance expression with a universe of values, each cloned, address-walked and mutated both ways; "
                     "non-trivial = the value contains a pointer, a non-nil slice or a map")
    c.assumptions += ["addresses are collected through reflection including private fields (unsafe); Generic/struct clones are covered by C08"]
