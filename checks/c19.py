"""C19 - CopyOnWriteMap is linearizable; ComputeIfAbsent is atomic per key.

(A) TLC: Cow.tla (blocks between yield points; ComputeIf re-checks under the lock) refines the atomic
    map CowAbs for every program of 2 threads x <=2 ops / 3 threads x 1 op over the operation alphabet;
    the check-then-act variant is rejected.
(B) State graphs of Cow.tla for chosen programs are exported; an edge cover is replayed as schedules on
    the real map under the cooperative scheduler.
(C) The harness explores schedules itself (exhaustive DFS, random) and runs real parallel goroutines
    without the scheduler; every call/return history is linearized - or rejected - by TLC (TraceCowAbs).
"""
import json
import random

import vf

KEYS = ["a", "b", "c"]


def op(o, k="-", v=0, fn="-", k2="-"):
    return dict(op=o, k=k, k2=k2, v=v, fn=fn)


ALPHABET = [op("get", "a"), op("get", "b"), op("size"), op("iter"), op("put", "a", 3), op("put", "b", 2), op("put", "a", 7),
            op("del", "a"), op("del2", "a", k2="b"), op("upw", "a", fn="inc"), op("upw", "a", fn="del"), op("upw", "b", 5, "set"),
            op("upw", "a", fn="keep"), op("cia", "a", 1, "never"), op("cia", "a", 2, "never"), op("cia", "b", 4, "never"),
            op("cif", "a", 4, "odd"), op("cif", "a", 6, "always"), op("cia", "c", 9, "never"), op("del", "c")]

PROGRAMS = [
    [[op("cia", "a", 1, "never")], [op("cia", "a", 2, "never")], [op("del", "a")]],
    [[op("cia", "a", 1, "never"), op("get", "a")], [op("cia", "a", 2, "never"), op("iter")]],
    [[op("put", "a", 3), op("upw", "a", fn="inc")], [op("upw", "a", fn="inc"), op("size")], [op("del2", "a", k2="b")]],
    [[op("cif", "a", 4, "odd"), op("get", "a")], [op("put", "a", 1), op("cif", "a", 6, "always")]],
]


def tla_op(o):
    return 'Op("%s","%s","%s",%d,"%s")' % (o["op"], o["k"], o["k2"], o["v"], o["fn"])


def tla_prog(prog):
    names = ["t%d" % (i + 1) for i in range(len(prog))]
    body = " @@ ".join('("%s" :> <<%s>>)' % (n, ", ".join(tla_op(o) for o in ops)) for n, ops in zip(names, prog))
    return names, "{%s}" % body


MC_CFG = """SPECIFICATION Spec
CONSTANTS
  Threads = {%s}
  Keys = {"a", "b"}
  KeyOrder <- KO
  ProgSpace <- %s
  ComputeMode = "%s"
  InitMode = "%s"
VIEW View
INVARIANT NoPanic
PROPERTY Refines
CHECK_DEADLOCK FALSE
"""

GEN_CFG = """SPECIFICATION Spec
CONSTANTS
  Threads = {%s}
  Keys = {"a", "b"}
  KeyOrder <- KO
  ProgSpace <- TheProg
  ComputeMode = "recheck"
  InitMode = "recheck"
VIEW View
ACTION_CONSTRAINT Emit
CHECK_DEADLOCK FALSE
"""


def q(names):
    return ", ".join('"%s"' % n for n in names)


def classify(rej):
    ev = rej["line"]
    events = rej["events"][:rej["index_in_trace"] + 1]
    calls = {}
    for e in events:
        if e["e"] == "Call":
            calls[e["t"]] = e
    if ev["e"] == "Ret":
        c = calls.get(ev["t"], {})
        if ev["res"] == "panic":
            return "%s-panics" % c.get("op")
        return "%s-result-not-linearizable" % c.get("op")
    return ev["e"].lower() + "-unexplained"


def concrete(rej):
    case = json.loads(rej["events"][0]["case"])
    end = [e for e in rej["events"] if e["e"] == "End"]
    if case.get("mode") != "parallel":
        case["schedule"] = end[-1]["picked"] if end else []
        case.pop("explore", None)
        case.pop("max", None)
    else:
        case["max"] = 400
    return case


def report(c, rej, confirmed_from=None):
    sig = classify(rej)
    c.report("C19:" + sig, dict(case=confirmed_from or concrete(rej), events=rej["events"], unexplained=rej["line"]),
             "history of the real CopyOnWriteMap has no linearization (CowAbs): %s at %s" % (sig, json.dumps(rej["line"])))


def run(c):
    rng = random.Random(c.seed)
    if c.replay:
        rp = json.load(open(c.replay))
        if rp["case"].get("mode") == "race":
            rr = c.race_run(rp["case"]["args"])
            if rr is not None:
                c.report("C19:" + rr["kind"], dict(case=rp["case"], report=rr["report"]), "race reproduced: %s" % rr["frames"][:4])
            return
        _, out = c.harness("c19", [rp["case"]], name="replay")
        rej = c.validate(out, "TraceCowAbs", max_rejects=1)
        if rej:
            report(c, rej[0], rp["case"])
        return

    # ---------------- (A) ----------------
    c.tlc_expect_clean("MCCow", "MCCow3x1", files={"MCCow3x1.cfg": MC_CFG % (q(["t1", "t2", "t3"]), "Prog3x1", "recheck", "recheck")})
    if c.thorough:
        c.tlc_expect_clean("MCCow", "MCCow2x2", files={"MCCow2x2.cfg": MC_CFG % (q(["t1", "t2"]), "Prog2x2", "recheck", "recheck")}, timeout=1800)
        c.tlc_expect_clean("MCCow", "MCCow3x2", files={"MCCow3x2.cfg": MC_CFG % (q(["t1", "t2", "t3"]), "Prog3x2", "recheck", "recheck")}, timeout=3000)
    neg = c.tlc_expect_violation("MCCow", "MCCowNeg", files={"MCCowNeg.cfg": MC_CFG % (q(["t1", "t2", "t3"]), "ProgRace", "unlocked", "recheck")})
    neg2 = c.tlc_expect_violation("MCCow", "MCCowNegInit", files={"MCCowNegInit.cfg": MC_CFG % (q(["t1", "t2", "t3"]), "Prog3x1", "recheck", "norecheck")})
    c.extra["negative_config_rejected"] = neg.violated + neg2.violated

    # ---------------- (B) ----------------
    cases = []
    progs = list(PROGRAMS)
    for _ in range(6 if c.thorough else 2):
        progs.append([[rng.choice(ALPHABET[:18]) for _ in range(rng.randint(1, 2))] for _ in range(rng.randint(2, 3))])
    edges = paths_n = 0
    for i, prog in enumerate(progs):
        prog = [[o for o in ops if o["k"] != "c" and o["k2"] != "c"] or [op("get", "a")] for ops in prog]
        names, tla = tla_prog(prog)
        mod = "GenCowP%d" % i
        text = "---- MODULE %s ----\nEXTENDS GenCow\nTheProg == %s\n====\n" % (mod, tla)
        g, _ = c.export_graph(mod, mod, GEN_CFG % q(names), extra_files={mod + ".tla": text})
        paths, unc = g.edge_cover(rng, want=lambda lab: lab[0] == "Block")
        edges += len(g.edges)
        paths_n += len(paths)
        threads = [dict(name=n, ops=ops) for n, ops in zip(names, prog)]
        for p in paths:
            # model: Call = start..first yield, Block = one block, Ret shares the step of the last block
            sched_ = [t for a, t in p if a in ("Call", "Block")]
            cases.append(dict(mode="sched", threads=threads, schedule=sched_, origin="edge-cover " + mod))
        # and every schedule of that program, exhaustively, by the harness itself
        cases.append(dict(mode="sched", threads=threads, explore="dfs", max=40000 if c.thorough else 3000, origin="dfs " + mod))
    c.extra["graph_edges"] = edges
    c.extra["edge_cover_paths"] = paths_n

    # ---------------- (C) ----------------
    def rand_threads(nt, nops, keys=3):
        alph = [o for o in ALPHABET if keys == 3 or (o["k"] != "c")]
        return [dict(name="t%d" % (i + 1), ops=[rng.choice(alph) for _ in range(rng.randint(1, nops))]) for i in range(nt)]
    for _ in range(40 if c.thorough else 10):
        cases.append(dict(mode="sched", threads=rand_threads(rng.randint(2, 4), 3), explore="random",
                          max=300 if c.thorough else 100, seed=rng.getrandbits(40), origin="random schedules"))
    for _ in range(60 if c.thorough else 15):
        cases.append(dict(mode="parallel", threads=rand_threads(rng.randint(2, 4), 3), max=100 if c.thorough else 40,
                          origin="parallel goroutines"))
    # contention-heavy: many ComputeIfAbsent on one key against removals
    for _ in range(10 if c.thorough else 3):
        th = [dict(name="t%d" % (i + 1), ops=[op("cia", "a", i + 1, "never"), op("get", "a")]) for i in range(3)]
        th.append(dict(name="t4", ops=[op("del", "a"), op("cia", "a", 9, "never")]))
        cases.append(dict(mode="parallel", threads=th, max=200 if c.thorough else 60, origin="parallel cia"))

    summary, out = c.harness("c19", cases, timeout=3000)
    c.cov["evaluations"] += summary["events"]
    c.extra["executions_scheduled"] = summary.get("executions", 0)
    c.extra["executions_parallel"] = summary.get("parallel", 0)
    c.extra["dfs_complete"] = summary.get("dfs_complete", 0)
    c.extra["dfs_capped"] = summary.get("dfs_capped", 0)

    # distinct non-trivial histories: distinct event sequences in which two calls overlap
    seen, nontrivial, cur, key = set(), 0, None, []
    def flush():
        nonlocal nontrivial
        k = tuple(key)
        if not k or k in seen:
            return
        seen.add(k)
        open_, overlap = set(), False
        for e, t, _ in k:
            if e == "Call":
                overlap = overlap or bool(open_)
                open_.add(t)
            elif e == "Ret":
                open_.discard(t)
        nontrivial += overlap
    with open(out) as fh:
        for line in fh:
            ev = json.loads(line)
            if ev["tr"] != cur:
                flush()
                cur, key = ev["tr"], []
                if len(c.cov["samples"]) < 3 and ev["tr"] % 1733 == 7:
                    c.cov["samples"].append(json.loads(ev["case"]))
            if ev["e"] in ("Call", "Ret"):
                key.append((ev["e"], ev["t"], ev.get("res", ev.get("op"))))
        flush()
    c.cov["distinct_nontrivial"] = nontrivial
    c.extra["distinct_histories"] = len(seen)
    c.cov["rule"] = ("histories = call/return logs of the real CopyOnWriteMap (edge cover of Cow.tla graphs, exhaustive DFS and random "
                     "schedules under the cooperative scheduler, real parallel goroutines); distinct = distinct call/return sequences "
                     "with results; non-trivial = at least two operations overlap")
    c.assumptions += ["yield points at the entry of load() and copyOnWrite(), outside the lock; in parallel mode Call is logged "
                      "before the invocation and Ret after the return, which can only widen the real interval"]
    if not c.cov["samples"]:
        c.cov["samples"].append(cases[0])

    # auxiliary oracle for "one consistent snapshot": unscheduled goroutines under the Go race detector -
    # a writer that mutates the published snapshot in place is invisible to any sequentially consistent
    # schedule but is a data race (or a runtime "concurrent map" fatal error) in real executions
    rr = c.race_run(["c19race", "4000" if c.thorough else "1500"])
    c.extra["race_detector_run"] = "clean" if rr is None else rr["kind"]
    if rr is not None:
        again = c.race_run(["c19race", "6000"])
        if again is None:
            raise vf.Infra("race report did not reproduce")
        fr = [f for f in again["frames"] if "/mutable" in f][:2]
        c.report("C19:" + again["kind"] + ":" + ",".join(sorted(set(fr))),
                 dict(case=dict(mode="race", args=["c19race", "6000"]), report=again["report"]),
                 "unscheduled goroutines on one CopyOnWriteMap: %s in %s" % (again["kind"], again["frames"][:4]))

    rejected = c.validate(out, "TraceCowAbs", max_rejects=15, timeout=3000)
    classes = set()
    for rej in rejected:
        k = classify(rej)
        c.extra.setdefault("rejected_by_class", {}).setdefault(k, 0)
        c.extra["rejected_by_class"][k] += 1
        if k in classes:
            continue
        classes.add(k)
        case = concrete(rej)
        if case.get("mode") == "parallel":
            # real parallel histories are not reproducible step by step; the recorded history itself is the
            # evidence (it has no linearization) - re-validate it alone
            data = "\n".join(json.dumps(e) for e in rej["events"]) + "\n"
            p = c.tmp + "/confirm-par.ndjson"
            open(p, "w").write(data)
            again = c.validate(p, "TraceCowAbs", max_rejects=1)
            if not again:
                raise vf.Infra("rejected parallel history accepted on its own")
            report(c, again[0], case)
        else:
            _, o2 = c.harness("c19", [case], name="confirm")
            again = c.validate(o2, "TraceCowAbs", max_rejects=1)
            if not again:
                raise vf.Infra("rejected execution did not reproduce from its schedule")
            report(c, again[0], case)
