"""C20 - the iterator protocol is sound; Duplicate/Span/Partition survive any pull order.

(A) TLC: Dup.tla - Duplicate as written (queue + leftAhead) - refines two cursors over one source for every
    interleaving of HasNext/Next on both sides; Stream.tla - the look-ahead machines of iterator.go - answer every
    call pattern like the abstract iterator of IterSpec.
(B)/(C) every iterator-producing function of the library (constructors, combinators, hash-collection iterators, the
    zero value) is driven with call patterns that include repeated HasNext, Next without HasNext and Next on an
    exhausted iterator, and both sides of Duplicate/Span/Partition in random interleavings; every call's answer is
    logged and TLC (TraceIter) accepts the log only if it is what IterSpec prescribes.
"""
import random

import iterlib


def run(c):
    if c.replay:
        return iterlib.replay(c, "C20")
    rng = random.Random(c.seed)
    c.tlc_expect_clean("MCDup", "MCDup")
    c.tlc_expect_clean("MCStream", "MCStreamProto")
    k = 24 if c.thorough else 1
    gens = [dict(kind="producers", n=1200 * k, seed=rng.getrandbits(40), depth=1, len=6, calls=10),
            dict(kind="twosided", n=1500 * k, seed=rng.getrandbits(40), depth=1, len=6, calls=14),
            dict(kind="pipelines", n=800 * k, seed=rng.getrandbits(40), depth=1, len=6, calls=10),
            dict(kind="zero", n=1, seed=rng.getrandbits(40), depth=1, len=0, calls=4)]
    out = iterlib.run_cases(c, "C20", gens, "c20")
    iterlib.count_nontrivial(c, out, "cases = (producer or one-stage pipeline or two-sided producer, source, call pattern) run on the real "
                             "library; non-trivial = repeated HasNext, consecutive Next, Next on exhausted, or calls on both sides")
    c.assumptions += ["element type int; hash-collection iterators are compared as multisets"]
