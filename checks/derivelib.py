"""Scratch packages for C08: types + @fp.Derive directives + the registry of field-by-field references.

A type expression is a tuple: ("int",) ("string",) ("bool",) ("dur",) ("slice", t) ("seq", t) ("opt", t) ("ptr", t) ("map", t)
("named", "MyInt") - local type with overriding local instances; ("ext", "Code") - type of package other with instances in its
own package; ("ext", "Both") - instances in its own package AND overriding ones in the working package; ("ext", "Plain") - no
instance anywhere but the derive package; ("struct", name) - another struct of the same scratch package; ("tparam", "T").

ref(cls, t) is the instance expression the DOCUMENTED naming / precedence rule selects (README 6.1: working package, then the
package of the type, then the derive package); it is written here independently of gombok's summoning code."""

CLASSES = ["eq", "ord", "hash", "monoid", "clone"]
# per-package overriding instances declared in the working package for NON-leaf / library types (set by go_source):
#   "slice": a generic local instance function EqSlice / CloneSlice (README 6.1: overrides eq.Slice / clone.Slice)
#   "dur": "Duration" | "TimeDuration" - a local instance for time.Duration under its short or package-qualified name
OVER = {}
# while the references of one struct are written: the struct table and whether its directive says recursive=true (a field
# whose struct type has no directive of its own is derived only then; otherwise the catch-all Given is the documented choice)
REFCTX = {"structs": {}, "recursive": True}
TC = {"eq": "Eq", "ord": "Ord", "hash": "Hashable", "monoid": "Monoid", "clone": "Clone"}


def gotype(t):
    k = t[0]
    if k == "int":
        return "int"
    if k == "string":
        return "string"
    if k == "bool":
        return "bool"
    if k == "dur":
        return "time.Duration"
    if k == "slice":
        return "[]" + gotype(t[1])
    if k == "seq":
        return "fp.Seq[%s]" % gotype(t[1])
    if k == "opt":
        return "fp.Option[%s]" % gotype(t[1])
    if k == "ptr":
        return "*" + gotype(t[1])
    if k == "map":
        return "map[string]" + gotype(t[1])
    if k == "named":
        return t[1]
    if k == "ext":
        return "other." + t[1]
    if k == "struct":
        return t[1] + (targs_text(t[2]) if len(t) > 2 else "")
    if k == "tparam":
        return t[1]
    if k == "bytes":
        return "[]byte"
    if k == "emb":
        return t[1]
    raise ValueError(t)


def targs_text(ta):
    """type arguments of an instantiated generic struct: a tuple of type expressions"""
    return "[" + ", ".join(gotype(x) for x in ta) + "]"


def inst_suffix(ta):
    """suffix of the reference function names of an instantiation; the all-int instantiation has none"""
    if all(x == ("int",) for x in ta):
        return ""
    return "__" + "_".join(gotype(x).replace("[]", "s").replace(".", "").replace("[", "").replace("]", "").replace(",", "").replace(" ", "").replace("*", "p") for x in ta)


def supported(cls, t, structs):
    k = t[0]
    if k in ("slice", "seq", "opt", "ptr"):
        return supported(cls, t[1], structs)
    if k == "map":
        return cls in ("eq", "monoid", "clone") and supported(cls, t[1], structs) if cls != "monoid" else True
    if k == "bool":
        return cls in ("eq", "clone")
    if k == "dur":
        return cls != "monoid"
    if k == "ext" and t[1] == "Plain":
        return cls != "monoid"
    if k == "struct":
        return cls in structs[t[1]]["classes"]
    return True


def ref(cls, t, C):
    """reference instance expression; C = fp.<Class> name"""
    k = t[0]
    T = TC[cls]
    g = gotype(t)
    if k == "tparam":
        raise ValueError("references are written for the instantiation at int")
    if k == "named":
        return "vS%s%s" % (T, t[1])      # silent twin of the local overriding instance
    if k == "ext":
        if t[1] in ("Code", "Both"):
            return "vS%s%s" % (T, t[1])  # silent twin of other.XCode / of the local XBoth that overrides other.XBoth
        return {"eq": "eq.Given[%s]()", "ord": "ord.Given[%s]()", "hash": "hash.Number[%s]()", "clone": "clone.Given[%s]()"}[cls] % g
    if k == "slice" and OVER.get("slice") and cls in ("eq", "clone"):
        return "vS%sSlice(%s)" % (T, ref(cls, t[1], C))
    if k == "dur" and OVER.get("dur") and cls == "eq":
        return "vSEqDur"
    if k == "seq" and OVER.get("importord") and cls == "eq":
        return "vSEqSeq(%s, %s)" % (ref("eq", t[1], C), ref("ord", t[1], C))
    if k in ("slice", "seq", "opt", "ptr", "map"):
        inner = ref(cls, t[1], C)
        ig = gotype(t[1])
        if cls == "monoid":
            if k == "slice":
                return "monoid.MergeSlice[%s]()" % ig
            if k == "seq":
                return "monoid.MergeSeq[%s]()" % ig
            if k == "map":
                return "monoid.MergeGoMap[string, %s]()" % ig
        if k == "ptr":
            return "%s.Ptr(lazy.Done[fp.%s[%s]](%s))" % (cls, T, ig, inner)
        if k == "map":
            if cls == "eq":
                return "eq.GoMap[string](%s)" % inner
            if cls == "clone":
                return "clone.GoMap(clone.Given[string](), %s)" % inner
        return "%s.%s(%s)" % (cls, {"slice": "Slice", "seq": "Seq", "opt": "Option"}[k], inner)
    if k == "emb":
        return ref(cls, ("struct", t[1]), C)
    if k == "struct" and len(t) == 2 and REFCTX["structs"].get(t[1], {}).get("nodirective") and cls in ("eq", "clone"):
        # a struct without a directive of its own: recursive=true derives it where only the catch-all Given[T any] would fit
        # (clone, or eq of a struct that is not comparable); a comparable struct has eq.Given[T comparable] in any case
        if not REFCTX["recursive"] or (cls == "eq" and comparable(t, REFCTX["structs"])):
            return "%s.Given[%s]()" % (cls, t[1])
    if k == "bytes":
        return {"eq": "eq.Bytes", "hash": "hash.Bytes", "clone": "clone.Slice(clone.Given[byte]())", "ord": "ord.Slice(ord.Given[byte]())"}[cls]
    if k == "struct":
        n = t[1] + (inst_suffix(t[2]) if len(t) > 2 else "")
        targs = targs_text(t[2]) if len(t) > 2 else ""
        # (reference functions exist for the instantiation at int only and carry no type arguments in their names)
        if cls == "eq":
            return "eq.New(vRefEq_%s)" % n
        if cls == "ord":
            return "ord.New(eq.New(vRefEq_%s), vRefLess_%s)" % (n, n)
        if cls == "hash":
            return "hash.New(eq.New(vRefEq_%s), func(%s%s) uint32 { return 0 })" % (n, t[1], targs)
        if cls == "monoid":
            return "monoid.New(vRefEmpty_%s, vRefCombine_%s)" % (n, n)
        return "clone.Given[%s%s]()" % (t[1], targs)
    base = {
        "eq": {"int": "eq.Given[int]()", "string": "eq.String", "bool": "eq.Given[bool]()", "dur": "eq.Given[time.Duration]()"},
        "ord": {"int": "ord.Given[int]()", "string": "ord.Given[string]()", "dur": "ord.Given[time.Duration]()"},
        "hash": {"int": "hash.Number[int]()", "string": "hash.String", "dur": "hash.Number[time.Duration]()"},
        "monoid": {"int": "vSMonoidInt", "string": "monoid.String"},
        "clone": {"int": "clone.Given[int]()", "string": "clone.Given[string]()", "bool": "clone.Given[bool]()", "dur": "clone.Given[time.Duration]()"},
    }
    return base[cls][k]


def comparable(t, structs):
    k = t[0]
    if k in ("slice", "seq", "map", "bytes"):
        return False
    if k in ("opt",):
        return comparable(t[1], structs)
    if k in ("struct", "emb"):
        return t[1] == "Empty" or all(comparable(ft, structs) for _, ft in structs[t[1]]["fields"])
    return True


def candidates(t):
    """-> the overridable leaf types below t as (type name, declared in the working package, declared in the type's package)"""
    k = t[0]
    if k == "slice" and OVER.get("slice"):
        return [("Slice", True, False)] + candidates(t[1])
    if k == "dur" and OVER.get("dur"):
        return [(OVER["dur"], True, False)]
    if k == "seq" and OVER.get("importord"):
        return [("Seq", True, False)] + candidates(t[1])
    if k in ("slice", "seq", "opt", "ptr", "map"):
        return candidates(t[1])
    if k == "named":
        return [(t[1], True, False)]
    if k == "ext" and t[1] == "Code":
        return [("Code", False, True)]
    if k == "ext" and t[1] == "Both":
        return [("Both", True, True)]
    if k == "int":
        return [("Int", True, False)]      # only monoid has (and needs) a local instance for int
    return []


OTHER = '''package other

import (
	"github.com/csgura/fp"
	"github.com/csgura/fp/clone"
	"github.com/csgura/fp/eq"
	"github.com/csgura/fp/hash"
	"github.com/csgura/fp/monoid"
	"github.com/csgura/fp/ord"
)

// use counters of the instances declared next to their types
var Used = map[string]int{}

func hit(n string) { Used[n]++ }

type Plain int

%s
'''

# the overriding instances are semantically different from what the derive package would give (equality modulo 10, descending
# order, product) and count their uses
OVERRIDES = '''
type %(T)s int

var Eq%(N)s fp.Eq[%(Q)s] = eq.New(func(a, b %(Q)s) bool { %(hit)s("%(P)sEq%(N)s"); return a%%10 == b%%10 })

var Ord%(N)s fp.Ord[%(Q)s] = ord.New(Eq%(N)s, func(a, b %(Q)s) bool { %(hit)s("%(P)sOrd%(N)s"); return a%%10 > b%%10 })

var Hashable%(N)s fp.Hashable[%(Q)s] = hash.New(Eq%(N)s, func(a %(Q)s) uint32 { %(hit)s("%(P)sHashable%(N)s"); return uint32(a %% 10) })

var Monoid%(N)s fp.Monoid[%(Q)s] = monoid.New(func() %(Q)s { return 1 }, func(a, b %(Q)s) %(Q)s { %(hit)s("%(P)sMonoid%(N)s"); return a * b })

var Clone%(N)s fp.Clone[%(Q)s] = clone.New(func(a %(Q)s) %(Q)s { %(hit)s("%(P)sClone%(N)s"); return a })
'''


SILENT = '''
var vSEq%(N)s fp.Eq[%(Q)s] = eq.New(func(a, b %(Q)s) bool { return a%%10 == b%%10 })
var vSOrd%(N)s fp.Ord[%(Q)s] = ord.New(vSEq%(N)s, func(a, b %(Q)s) bool { return a%%10 > b%%10 })
var vSHashable%(N)s fp.Hashable[%(Q)s] = hash.New(vSEq%(N)s, func(a %(Q)s) uint32 { return uint32(a %% 10) })
var vSMonoid%(N)s fp.Monoid[%(Q)s] = monoid.New(func() %(Q)s { return 1 }, func(a, b %(Q)s) %(Q)s { return a * b })
'''


def other_source():
    body = OVERRIDES % dict(T="Code", N="Code", Q="Code", hit="hit", P="other.") + OVERRIDES % dict(T="Both", N="Both", Q="Both", hit="hit", P="other.")
    return OTHER % body


PRELUDE = '''package %(pkg)s

import (
	"time"

	"scratch/other"

	"github.com/csgura/fp"
	"github.com/csgura/fp/clone"
	"github.com/csgura/fp/eq"
	"github.com/csgura/fp/hash"
	"github.com/csgura/fp/lazy"
	"github.com/csgura/fp/monoid"
	"github.com/csgura/fp/ord"
	"github.com/csgura/fp/seq"
)

//go:generate go run github.com/csgura/fp/cmd/gombok

var _ = seq.Sort[int]

var _ time.Duration
var _ other.Plain
var _ = lazy.Done[int]
var _ fp.Unit

// use counters of the instances declared in the working package
var vUsed = map[string]int{}

func vHit(n string) { vUsed[n]++ }

type Empty struct{}

var MonoidInt fp.Monoid[int] = monoid.New(func() int { return 0 }, func(a, b int) int { vHit("MonoidInt"); return a + b })
'''


def local_overrides():
    s = OVERRIDES % dict(T="MyInt", N="MyInt", Q="MyInt", hit="vHit", P="")
    # other.Both: the working package overrides the instances of the type's own package
    both = OVERRIDES % dict(T="xx", N="Both", Q="other.Both", hit="vHit", P="")
    both = both.replace("\ntype xx int\n", "\n")
    return s + both


LEAVES = {
    "eq": [("int",), ("string",), ("bool",), ("dur",), ("named", "MyInt"), ("ext", "Code"), ("ext", "Both"), ("ext", "Plain")],
    "ord": [("int",), ("string",), ("dur",), ("named", "MyInt"), ("ext", "Code"), ("ext", "Both"), ("ext", "Plain")],
    "hash": [("int",), ("string",), ("dur",), ("named", "MyInt"), ("ext", "Code"), ("ext", "Both"), ("ext", "Plain")],
    "monoid": [("int",), ("string",), ("named", "MyInt"), ("ext", "Code"), ("ext", "Both")],
    "clone": [("int",), ("string",), ("bool",), ("dur",), ("named", "MyInt"), ("ext", "Code"), ("ext", "Both"), ("ext", "Plain")],
}
WRAPS = {
    "eq": ["slice", "seq", "opt", "ptr", "map"],
    "ord": ["slice", "seq", "opt", "ptr"],
    "hash": ["slice", "seq", "opt", "ptr"],
    "monoid": ["slice", "seq", "opt", "ptr", "map"],
    "clone": ["slice", "seq", "opt", "ptr", "map"],
}


def rand_type(rng, classes, structs, depth=0, tparams=()):
    """a type every class of `classes` supports"""
    leaves = [t for t in LEAVES[classes[0]] if all(t in LEAVES[c] for c in classes)]
    wraps = [w for w in WRAPS[classes[0]] if all(w in WRAPS[c] for c in classes)]
    x = rng.random()
    if depth < 2 and x < 0.35 and wraps:
        w = rng.choice(wraps)
        inner = rand_type(rng, classes, structs, depth + 1, tparams)
        return (w, inner)
    if x < 0.5:
        cand = [n for n, s in structs.items() if all(c in s["classes"] for c in classes) and not s["tparams"] and not s.get("recursive")]
        if cand:
            return ("struct", rng.choice(cand))
    if tparams and x < 0.65:
        return ("tparam", rng.choice(tparams))
    return rng.choice(leaves)


def gen_structs(rng, n):
    structs = {}
    order = []
    for i in range(n):
        classes = rng.sample(CLASSES, rng.randint(1, 3))
        if rng.random() < 0.25:
            classes = list(CLASSES)
        classes = [c for c in CLASSES if c in classes]
        value = rng.random() < 0.7
        tparams = ["T"] if (value and rng.random() < 0.2) else []
        nf = rng.randint(1, 6)
        fields = []
        for j in range(nf):
            t = rand_type(rng, classes, structs, 0, tuple(tparams))
            fields.append((("f%d" if value else "F%d") % (j + 1), t))
        if tparams and not any(uses_tparam(t) for _, t in fields):
            fields.append(("f99" if value else "F99", ("tparam", "T")))
        name = "D%d" % i
        structs[name] = dict(name=name, fields=fields, classes=classes, value=value, tparams=tparams, recursive_flag=False)
        order.append(name)
    return structs, order


def uses_tparam(t):
    if t[0] == "struct" and len(t) > 2:
        return any(uses_tparam(x) for x in t[2])
    return t[0] == "tparam" or (len(t) > 1 and isinstance(t[1], tuple) and uses_tparam(t[1]))


def special_structs():
    """boundary shapes: recursion through pointers and slices, more than 21 fields (HList path), a phantom type parameter,
    two type parameters, a nested struct without its own directive (recursive=true)"""
    s = {}
    s["Node"] = dict(name="Node", fields=[("v", ("int",)), ("next", ("ptr", ("struct", "Node")))], classes=["eq", "ord", "hash", "clone"], value=True, tparams=[], recursive=True)
    s["Tree"] = dict(name="Tree", fields=[("v", ("named", "MyInt")), ("l", ("ptr", ("struct", "Tree"))), ("kids", ("slice", ("ptr", ("struct", "Tree")))), ("tag", ("string",))],
                     classes=["eq", "hash", "clone"], value=True, tparams=[], recursive=True)
    s["Big"] = dict(name="Big", fields=[("g%d" % i, [("int",), ("string",), ("named", "MyInt"), ("opt", ("int",)), ("slice", ("string",))][i % 5]) for i in range(1, 24)],
                    classes=["eq", "hash", "monoid", "clone"], value=True, tparams=[])   # (ord over the HList path costs 2^fields calls)
    s["Pair"] = dict(name="Pair", fields=[("a", ("tparam", "A")), ("b", ("tparam", "B")), ("bs", ("slice", ("tparam", "B")))], classes=["eq", "ord", "hash", "monoid", "clone"], value=True,
                     tparams=["A", "B"])
    s["Phantom"] = dict(name="Phantom", fields=[("a", ("tparam", "A")), ("n", ("int",))], classes=["eq", "ord"], value=True, tparams=["A", "B"])
    s["Leaf"] = dict(name="Leaf", fields=[("X", ("int",)), ("Y", ("slice", ("string",)))], classes=[], value=False, tparams=[], nodirective=True)
    s["Holder"] = dict(name="Holder", fields=[("L", ("struct", "Leaf")), ("P", ("ptr", ("struct", "Leaf"))), ("N", ("int",))], classes=["eq", "clone"], value=False, tparams=[],
                       recursive_flag=True)
    s["Prec"] = dict(name="Prec", fields=[("m", ("named", "MyInt")), ("c", ("ext", "Code")), ("b", ("ext", "Both")), ("p", ("ext", "Plain")), ("d", ("dur",))],
                     classes=["eq", "ord", "hash", "clone"], value=True, tparams=[])
    s["PrecM"] = dict(name="PrecM", fields=[("m", ("named", "MyInt")), ("c", ("ext", "Code")), ("b", ("ext", "Both")), ("n", ("int",))], classes=["monoid"], value=True, tparams=[])
    kinds = [("int",), ("string",), ("named", "MyInt"), ("opt", ("int",)), ("slice", ("string",))]
    # the tuple / hlist boundary: 21 fields is the last TupleN, 22 the first hlist representation
    s["W21"] = dict(name="W21", fields=[("h%d" % i, kinds[i % 5]) for i in range(1, 22)], classes=["eq", "ord", "hash", "monoid", "clone"], value=True, tparams=[])
    s["W22"] = dict(name="W22", fields=[("h%d" % i, kinds[i % 5]) for i in range(1, 23)], classes=["eq", "hash", "monoid", "clone"], value=True, tparams=[])
    s["P22"] = dict(name="P22", fields=[("H%d" % i, kinds[i % 5]) for i in range(1, 23)], classes=["eq", "monoid", "clone"], value=False, tparams=[])
    # recursive=true over a plain struct that mixes exported and unexported fields
    s["Mixed"] = dict(name="Mixed", fields=[("Pub", ("slice", ("int",))), ("priv", ("map", ("int",))), ("N", ("int",))], classes=[], value=False, tparams=[], nodirective=True)
    s["Holder2"] = dict(name="Holder2", fields=[("M", ("struct", "Mixed")), ("Ms", ("slice", ("struct", "Mixed"))), ("Mp", ("ptr", ("struct", "Mixed")))], classes=["eq", "clone"],
                        value=False, tparams=[], recursive_flag=True)
    # type parameters used in another order than declared
    s["Rev"] = dict(name="Rev", fields=[("right", ("tparam", "B")), ("left", ("tparam", "A"))], classes=["eq", "ord", "clone"], value=True, tparams=["A", "B"])
    # a generic struct instantiated inside another struct
    II, IS, SI = (("int",), ("int",)), (("int",), ("string",)), (("string",), ("int",))
    s["UsesPair"] = dict(name="UsesPair", fields=[("n", ("int",)), ("p", ("struct", "Pair", II)), ("ps", ("slice", ("struct", "Pair", SI))), ("r", ("struct", "Rev", IS)),
                                                  ("q", ("opt", ("struct", "Rev", (("named", "MyInt"), ("string",)))))],
                         classes=["eq", "ord", "clone"], value=True, tparams=[])
    # an empty embedded struct is no field of the representation; []byte has instances of its own
    s["WithEmpty"] = dict(name="WithEmpty", fields=[("Empty", ("emb", "Empty")), ("a", ("int",)), ("b", ("string",))], classes=["eq", "ord", "hash", "clone"], value=True, tparams=[])
    s["Blob"] = dict(name="Blob", fields=[("data", ("bytes",)), ("n", ("int",)), ("chunks", ("slice", ("bytes",)))], classes=["eq", "hash", "clone"], value=True, tparams=[])
    # a plain struct embedding a struct that has only unexported fields: the embedded field takes part like any other
    s["AuditP"] = dict(name="AuditP", fields=[("rev", ("int",)), ("owner", ("named", "MyInt"))], classes=["eq", "ord", "hash", "monoid", "clone"], value=True, tparams=[])
    s["DocP"] = dict(name="DocP", fields=[("AuditP", ("emb", "AuditP")), ("Title", ("string",)), ("Pages", ("slice", ("int",)))], classes=["eq", "ord", "hash", "monoid", "clone"], value=False,
                     tparams=[])
    # a struct without directive used first under a plain directive (the catch-all Given is right there) and afterwards
    # under recursive=true (where it has to be derived field by field, MyInt through the overriding instance)
    s["Xleaf"] = dict(name="Xleaf", fields=[("M", ("named", "MyInt")), ("S", ("string",))], classes=[], value=False, tparams=[], nodirective=True)
    s["XPlain"] = dict(name="XPlain", fields=[("X", ("struct", "Xleaf")), ("N", ("int",))], classes=["eq"], value=False, tparams=[])
    s["XRec"] = dict(name="XRec", fields=[("X", ("struct", "Xleaf")), ("K", ("string",))], classes=["eq"], value=False, tparams=[], recursive_flag=True)
    s["Yleaf"] = dict(name="Yleaf", fields=[("L", ("slice", ("int",))), ("M", ("named", "MyInt"))], classes=[], value=False, tparams=[], nodirective=True)
    s["YPlain"] = dict(name="YPlain", fields=[("Y", ("struct", "Yleaf")), ("N", ("int",))], classes=["clone"], value=False, tparams=[], shallow=True)
    s["YRec"] = dict(name="YRec", fields=[("Y", ("struct", "Yleaf")), ("K", ("string",))], classes=["clone", "eq"], value=False, tparams=[], recursive_flag=True)
    return s, ["AuditP", "DocP", "Xleaf", "XPlain", "XRec", "Yleaf", "YPlain", "YRec", "Node", "Tree", "Big", "Pair", "Phantom", "Leaf", "Holder", "Prec", "PrecM", "W21", "W22", "P22", "Mixed", "Holder2", "Rev", "UsesPair", "WithEmpty", "Blob"]


def import_structs():
    """the package of README 7: @fp.ImportGiven of ord, a local EqSeq that needs Ord[T], a generic struct using it and a struct
    using that generic struct"""
    s = {}
    s["Bag"] = dict(name="Bag", fields=[("items", ("seq", ("tparam", "T"))), ("n", ("int",))], classes=["eq"], value=True, tparams=["T"])
    s["UsesBag"] = dict(name="UsesBag", fields=[("b", ("struct", "Bag", (("int",),))), ("tags", ("seq", ("string",))), ("ms", ("seq", ("named", "MyInt"))), ("bs", ("struct", "Bag", (("string",),)))],
                        classes=["eq"], value=True, tparams=[])
    s["Flat"] = dict(name="Flat", fields=[("xs", ("seq", ("int",))), ("o", ("opt", ("seq", ("int",))))], classes=["eq"], value=False, tparams=[])
    return s, ["Bag", "UsesBag", "Flat"]


def override_structs():
    """structs for the packages that declare local instances for library / composite types (slices, time.Duration)"""
    s = {}
    s["OS1"] = dict(name="OS1", fields=[("xs", ("slice", ("int",))), ("n", ("int",)), ("d", ("dur",)), ("ys", ("slice", ("slice", ("string",))))], classes=["eq", "clone"], value=True, tparams=[])
    s["OS2"] = dict(name="OS2", fields=[("D", ("dur",)), ("O", ("opt", ("dur",))), ("S", ("slice", ("dur",)))], classes=["eq"], value=False, tparams=[])
    s["OS3"] = dict(name="OS3", fields=[("inner", ("struct", "OS1")), ("p", ("ptr", ("slice", ("int",))))], classes=["eq", "clone"], value=True, tparams=[])
    return s, ["OS1", "OS2", "OS3"]


def inst_args(st, cls, C):
    """type arguments and instance arguments for a generic struct instantiated at int"""
    if not st["tparams"]:
        return "", ""
    used = [p for p in st["tparams"] if any(needs_instance(cls, t, p) for _, t in st["fields"])]
    targs = "[" + ", ".join("int" for _ in st["tparams"]) + "]"
    args = []
    for p in used:
        args.append(ref(cls, ("int",), C))
        # the overriding EqSeq also needs an Ord of the element type: one more instance argument for that parameter
        if cls == "eq" and OVER.get("importord") and any(under_seq(t, p) for _, t in st["fields"]):
            args.append(ref("ord", ("int",), C))
    return targs, ", ".join(args)


def under_seq(t, p, inside=False):
    if t[0] == "tparam":
        return inside and t[1] == p
    if len(t) > 1 and isinstance(t[1], tuple):
        return under_seq(t[1], p, inside or t[0] == "seq")
    return False


def needs_instance(cls, t, p):
    """an instance for type parameter p is needed to build the instance for t (the Merge* monoids take no element instance)"""
    if t[0] == "tparam":
        return t[1] == p
    if len(t) > 1 and isinstance(t[1], tuple):
        if cls == "monoid" and t[0] in ("slice", "seq", "map"):
            return False
        return needs_instance(cls, t[1], p)
    return False


def uses_tparam_named(t, p):
    return (t[0] == "tparam" and t[1] == p) or (len(t) > 1 and isinstance(t[1], tuple) and uses_tparam_named(t[1], p))


def subst(t, tp, mapping=None):
    """replace type parameters: by mapping (name -> type) when given, by int otherwise"""
    if t[0] == "tparam":
        return (mapping or {}).get(t[1], ("int",))
    if t[0] == "struct" and len(t) > 2:
        return (t[0], t[1], tuple(subst(x, tp, mapping) for x in t[2]))
    if len(t) > 1 and isinstance(t[1], tuple):
        return (t[0], subst(t[1], tp, mapping))
    return t


def instantiations(structs, order):
    """generic struct -> the type-argument tuples it is used with (always the all-int one, plus those in field types)"""
    inst = {n: [tuple(("int",) for _ in structs[n]["tparams"])] for n in order if structs[n]["tparams"]}

    def visit(t):
        if t[0] == "struct" and len(t) > 2:
            if t[2] not in inst.setdefault(t[1], []):
                inst[t[1]].append(t[2])
            for x in t[2]:
                visit(x)
        elif len(t) > 1 and isinstance(t[1], tuple):
            visit(t[1])
    for n in order:
        for _, t in structs[n]["fields"]:
            if not uses_tparam(t):
                visit(t)
    return inst


OVER_SLICE = '''
// local generic instances: they override eq.Slice / clone.Slice of the derive package (README 6.1) and are observably different
// (slices are equal when they have the same length) resp. count their uses
func EqSlice[T any](e fp.Eq[T]) fp.Eq[[]T] {
	return eq.New(func(a, b []T) bool { vHit("EqSlice"); return len(a) == len(b) })
}

func CloneSlice[T any](c fp.Clone[T]) fp.Clone[[]T] {
	return clone.New(func(a []T) []T { vHit("CloneSlice"); return clone.Slice(c).Clone(a) })
}
'''
OVER_DUR = '''
// a local instance for time.Duration under its %(form)s name: durations are equal when they agree modulo 10ns
var Eq%(name)s fp.Eq[time.Duration] = eq.New(func(a, b time.Duration) bool { vHit("Eq%(name)s"); return a%%10 == b%%10 })
'''
OVER_IMPORT = '''
// instances of ord are visible while deriving eq (README 7)
// @fp.ImportGiven
var _ ord.Derives[fp.Ord[any]]

// EqSeq overrides eq.Seq and asks for an Ord of the element type, which only the import above can supply:
// sequences are equal when they are equal as multisets
func EqSeq[T any](eqT fp.Eq[T], ordT fp.Ord[T]) fp.Eq[fp.Seq[T]] {
	return eq.New(func(a, b fp.Seq[T]) bool {
		vHit("EqSeq")
		return eq.Seq(eqT).Eqv(seq.Sort(a, ordT), seq.Sort(b, ordT))
	})
}
'''
SILENT_OVER = '''
func vSEqSeq[T any](eqT fp.Eq[T], ordT fp.Ord[T]) fp.Eq[fp.Seq[T]] {
	return eq.New(func(a, b fp.Seq[T]) bool { return eq.Seq(eqT).Eqv(seq.Sort(a, ordT), seq.Sort(b, ordT)) })
}
func vSEqSlice[T any](e fp.Eq[T]) fp.Eq[[]T] { return eq.New(func(a, b []T) bool { return len(a) == len(b) }) }
func vSCloneSlice[T any](c fp.Clone[T]) fp.Clone[[]T] { return clone.Slice(c) }
var vSEqDur fp.Eq[time.Duration] = eq.New(func(a, b time.Duration) bool { return a%10 == b%10 })
'''


def go_source(pkg, structs, order, over=None):
    OVER.clear()
    OVER.update(over or {})
    try:
        return _go_source(pkg, structs, order)
    finally:
        OVER.clear()


def _go_source(pkg, structs, order):
    out = [PRELUDE % dict(pkg=pkg), local_overrides()]
    if OVER.get("slice"):
        out.append(OVER_SLICE)
    if OVER.get("dur"):
        out.append(OVER_DUR % dict(name=OVER["dur"], form="short" if OVER["dur"] == "Duration" else "package-qualified"))
    if OVER.get("importord"):
        out.append(OVER_IMPORT)
    reg = ["package %s\n" % pkg, 'import (\n\t"time"\n\n\t"scratch/other"\n\n\t"github.com/csgura/fp"\n\t"github.com/csgura/fp/clone"\n\t"github.com/csgura/fp/eq"\n'
           '\t"github.com/csgura/fp/hash"\n\t"github.com/csgura/fp/lazy"\n\t"github.com/csgura/fp/monoid"\n\t"github.com/csgura/fp/ord"\n\t"github.com/csgura/fp/seq"\n)\nvar _ = seq.Sort[int]\n',
           "var _ time.Duration\nvar _ = lazy.Done[int]\nvar _ = clone.Given[int]\nvar _ = hash.String\nvar _ = ord.Given[int]\nvar _ = eq.String\nvar _ = monoid.String\nvar _ fp.Unit\nvar _ other.Plain\n",
           "func vCounters() map[string]int {\n\tm := map[string]int{}\n\tfor k, v := range vUsed {\n\t\tm[k] = v\n\t}\n\tfor k, v := range other.Used {\n\t\tm[k] = v\n\t}\n\treturn m\n}\n",
           "var vRegistry = []vEntry{}\nvar vIfaceValues = []any{}\n",
           SILENT % dict(N="MyInt", Q="MyInt") + SILENT % dict(N="Code", Q="other.Code") + SILENT % dict(N="Both", Q="other.Both"),
           "var vSMonoidInt fp.Monoid[int] = monoid.New(func() int { return 0 }, func(a, b int) int { return a + b })\n", SILENT_OVER]
    inits = []
    insts = instantiations(structs, order)
    for name in order:
        st = structs[name]
        tp = ""
        if st["tparams"]:
            tp = "[" + ", ".join("%s any" % p for p in st["tparams"]) + "]"
        if st["value"]:
            out.append("// @fp.Value")
        out.append("type %s%s struct {" % (name, tp))
        for fn, t in st["fields"]:
            out.append("\t%s %s" % (fn, gotype(t)) if t[0] != "emb" else "\t%s" % t[1])
        out.append("}\n")
        targs_decl = ("[" + ", ".join("any" for _ in st["tparams"]) + "]") if st["tparams"] else ""
        for cls in st["classes"]:
            flag = "(recursive=true)" if st.get("recursive_flag") else ""
            out.append("// @fp.Derive%s\nvar _ %s.Derives[fp.%s[%s%s]]\n" % (flag, cls, TC[cls], name, targs_decl))
        # references: one set per instantiation in use (the all-int one carries no suffix and is the one that is driven)
        all_cls = st["classes"] if not st.get("nodirective") else ["eq", "clone"]
        need_eq = any(c in all_cls for c in ("eq", "ord", "hash")) or st.get("nodirective")
        for ta in (insts.get(name) or [()]):
            mapping = dict(zip(st["tparams"], ta))
            REFCTX["structs"], REFCTX["recursive"] = structs, bool(st.get("recursive_flag")) or bool(st.get("nodirective"))
            finst = [(fn, subst(t, st["tparams"], mapping)) for fn, t in st["fields"] if t != ("emb", "Empty")]
            S = name + (targs_text(ta) if ta else "")
            rn = name + (inst_suffix(ta) if ta else "")
            if need_eq:
                conj = " && ".join("(%s).Eqv(a.%s, b.%s)" % (ref("eq", t, None), fn, fn) for fn, t in finst)
                reg.append("func vRefEq_%s(a, b %s) bool {\n\treturn %s\n}\n" % (rn, S, conj))
                vec = ", ".join("(%s).Eqv(a.%s, b.%s)" % (ref("eq", t, None), fn, fn) for fn, t in finst)
                reg.append("func vRefEqVec_%s(a, b %s) []bool {\n\treturn []bool{%s}\n}\n" % (rn, S, vec))
            if "ord" in all_cls:
                body = "".join("\tif o := (%s); !o.Eqv(a.%s, b.%s) {\n\t\treturn o.Less(a.%s, b.%s)\n\t}\n" % (ref("ord", t, None), fn, fn, fn, fn) for fn, t in finst)
                reg.append("func vRefLess_%s(a, b %s) bool {\n%s\treturn false\n}\n" % (rn, S, body))
                vec = ", ".join("(%s).Less(a.%s, b.%s)" % (ref("ord", t, None), fn, fn) for fn, t in finst)
                reg.append("func vRefLessVec_%s(a, b %s) []bool {\n\treturn []bool{%s}\n}\n" % (rn, S, vec))
            if "monoid" in all_cls:
                reg.append("func vRefEmpty_%s() %s {\n\treturn %s{%s}\n}\n" % (rn, S, S, ", ".join("%s: (%s).Empty()" % (fn, ref("monoid", t, None)) for fn, t in finst)))
                reg.append("func vRefCombine_%s(a, b %s) %s {\n\treturn %s{%s}\n}\n" % (rn, S, S, S, ", ".join("%s: (%s).Combine(a.%s, b.%s)" % (fn, ref("monoid", t, None), fn, fn) for fn, t in finst)))
        inst = [(fn, subst(t, st["tparams"])) for fn, t in st["fields"] if t != ("emb", "Empty")]
        targs = ("[" + ", ".join("int" for _ in st["tparams"]) + "]") if st["tparams"] else ""
        S = name + targs
        rn = name
        for cls in st["classes"]:
            T = TC[cls]
            ta, ia = inst_args(st, cls, None)
            call = "%s%s%s(%s)" % (T, name, ta, ia)
            cands = []
            REFCTX["structs"], REFCTX["recursive"] = structs, bool(st.get("recursive_flag")) or bool(st.get("nodirective"))
            for fn, t in inst:
                cands += cands_deep(cls, t, structs, set())
            cands = sorted(set(c for c in cands if c[0] != "Int" or cls == "monoid"))
            fields = ['name: "%s"' % name, 'cls: "%s"' % cls, "nfields: %d" % len(inst), "%s: %s" % (cls, call), "counters: vCounters",
                      "shallow: %s" % ("true" if st.get("shallow") else "false"),
                      "cands: []vCand{%s}" % ", ".join('{"", "%s", %s, %s}' % (c[0], str(c[1]).lower(), str(c[2]).lower()) for c in cands)]
            if cls == "eq" and OVER.get("importord"):
                # the Ord instances of the element types below a Seq
                also = sorted(set(c for c in cands if c[0] not in ("Seq", "Int")))
                fields.append("also: []vCand{%s}" % ", ".join('{"ord", "%s", %s, %s}' % (c[0], str(c[1]).lower(), str(c[2]).lower()) for c in also))
            if need_eq:
                fields.append("refEq: vRefEq_%s" % rn)
                fields.append("refEqVec: vRefEqVec_%s" % rn)
            if cls == "ord":
                fields.append("refLess: vRefLess_%s" % rn)
                fields.append("refLessVec: vRefLessVec_%s" % rn)
            if cls == "monoid":
                fields += ["refEmpty: vRefEmpty_%s" % rn, "refCombine: vRefCombine_%s" % rn]
            inits.append("\tvReg(vD[%s]{%s})" % (S, ", ".join(fields)))
    reg.append("func init() {\n%s\n}\n" % "\n".join(inits))
    return "\n".join(out), "\n".join(reg)


def cands_deep(cls, t, structs, seen):
    if t[0] == "emb":
        if t[1] == "Empty":
            return []
        t = ("struct", t[1])
    k = t[0]
    if k == "struct":
        if t[1] in seen:
            return []
        st = structs[t[1]]
        if st.get("nodirective") and cls in ("eq", "clone") and (not REFCTX["recursive"] or (cls == "eq" and comparable(t, structs))):
            return []
        mapping = dict(zip(st["tparams"], t[2])) if len(t) > 2 else None
        out = []
        for _, ft in st["fields"]:
            out += cands_deep(cls, subst(ft, st["tparams"], mapping), structs, seen | {t[1]})
        return out
    if k in ("slice", "seq", "opt", "ptr", "map"):
        if cls == "monoid" and k in ("slice", "seq", "map"):
            return []       # MergeSlice / MergeSeq / MergeGoMap take no element instance
        own = [("Slice", True, False)] if (k == "slice" and OVER.get("slice") and cls in ("eq", "clone")) else []
        if k == "seq" and OVER.get("importord") and cls == "eq":
            own = [("Seq", True, False)]
        return own + cands_deep(cls, t[1], structs, seen)
    if k == "dur":
        return candidates(t) if cls == "eq" else []
    return candidates(t)
