"""Shared by C01 / C02 (and C06): programs over Try / Option / Either run on the real packages, judged by TraceEffect."""
import json
import os

import vf


def kinds_of(prog, acc=None):
    acc = acc if acc is not None else set()
    if not prog:
        return acc
    if prog.get("name"):
        acc.add(prog["name"])
    for a in prog.get("args") or []:
        kinds_of(a, acc)
    kinds_of(prog.get("arg"), acc)
    for s in prog.get("steps") or []:
        kinds_of(s.get("p"), acc)
    return acc


def classify(rej):
    ev = rej["line"]
    init = rej["events"][0]
    names = "+".join(sorted(kinds_of(init["prog"])))[:70] or init["prog"]["k"]
    if ev["e"] == "Panic":
        return "panic:%s:%s" % (init["monad"], names)
    if ev["e"] == "Run":
        return "run-differs:%s:%s" % (init["monad"], names)
    return ev["e"].lower() + ":" + init["monad"]


def export_programs(c):
    r = c.tlc("GenEffect", "GenEffect", workers=1, count=False)
    if r.errors:
        raise vf.Infra("GenEffect failed: %s" % r.errors[:1])
    return json.load(open(os.path.join(r.dir, "effectprogs.json")))


def subsets_cases(monads, arities, rng):
    """C02: every subset of failing positions (position i fails with its own error e<i>) for every arity."""
    cases = []
    for n in arities:
        masks = range(2 ** n)
        for mask in masks:
            args = [dict(k="fail", e="e%d" % (i + 1)) if (mask >> i) & 1 else dict(k="unit", v=[i + 1]) for i in range(n)]
            for fin in (dict(t="pure", id=1, c="-"), dict(t="mon", id=1, c=rng.choice(["kinc", "kfail", "kodd"])), dict(t="none", id=0, c="-")):
                if fin["t"] == "none" and n > 6:
                    continue
                for m in monads:
                    cases.append(dict(kind="expand", monad=m, seed=rng.getrandbits(30), prog=dict(k="all", args=args, fin=fin)))
    return cases


def run_and_judge(c, prop, cases, label, timeout=3000):
    """Runs the cases; a fatal crash of the harness (stack exhaustion: a combinator that never terminates) is attributed to
    the case that was running and reported, after reproducing it alone."""
    c.quiet_harness_failure = True
    try:
        summary, out = c.harness("effect", cases, name=label, timeout=timeout)
    except vf.Infra as e:
        err = getattr(e, "stderr", "") or ""
        c.quiet_harness_failure = False
        if "stack overflow" not in err and "goroutine stack exceeds" not in err:
            raise
        out = os.path.join(c.tmp, label + ".ndjson")
        last = None
        for line in open(out):
            try:
                ev = json.loads(line)
            except ValueError:
                break
            if ev.get("e") == "Init":
                last = ev
        if last is None:
            raise
        case = json.loads(last["case"])
        try:
            c.quiet_harness_failure = True
            c.harness("effect", [case], name="confirm-crash")
            c.quiet_harness_failure = False
            raise vf.Infra("harness crash did not reproduce on the attributed case")
        except vf.Infra as e2:
            c.quiet_harness_failure = False
            if "stack" not in (getattr(e2, "stderr", "") or ""):
                raise
        names = "+".join(sorted(kinds_of(last["prog"])))
        c.report("%s:does-not-terminate:%s:%s" % (prop, last["monad"], names), dict(case=case),
                 "%s program using %s never returns: unbounded recursion exhausts the Go stack (fatal error: stack overflow)" % (last["monad"], names))
        c.extra["crashed_batch"] = label
        return None
    c.quiet_harness_failure = False
    c.cov["evaluations"] += summary["traces"]
    for k, v in summary.items():
        if k not in ("events", "traces"):
            c.extra[k] = c.extra.get(k, 0) + v
    rejected = c.validate(out, "TraceEffect", max_rejects=30, timeout=timeout)
    classes = set()
    for rej in rejected:
        k = classify(rej)
        c.extra.setdefault("rejected_by_class", {}).setdefault(k, 0)
        c.extra["rejected_by_class"][k] += 1
        if k in classes:
            continue
        classes.add(k)
        case = json.loads(rej["events"][0]["case"])
        _, o2 = c.harness("effect", [case], name="confirm")
        again = c.validate(o2, "TraceEffect", max_rejects=1)
        if not again:
            raise vf.Infra("rejected effect run did not reproduce")
        ev = again[0]["line"]
        c.report(prop + ":" + k, dict(case=case, observed=ev),
                 "run differs from EffectSpec!Eval (%s): observed %s" % (k, json.dumps({x: ev.get(x) for x in ("ok", "v", "err", "log", "v")})))
    return out


def count(c, out, rule):
    if not out:
        return
    seen, non = set(), 0
    cur = None
    for line in open(out):
        ev = json.loads(line)
        if ev["e"] == "Init":
            cur = ev
        elif ev["e"] == "Run" and cur is not None:
            key = cur["case"]
            if key in seen:
                continue
            seen.add(key)
            if not ev["ok"] or ev["log"]:
                non += 1
            if len(c.cov["samples"]) < 4 and len(seen) % 997 == 11:
                c.cov["samples"].append(dict(case=json.loads(key), run={k: ev[k] for k in ("ok", "v", "err", "log")}))
    c.cov["distinct_nontrivial"] += non
    c.extra["distinct_runs"] = c.extra.get("distinct_runs", 0) + len(seen)
    c.cov["rule"] = rule
