"""Scratch packages for the gombok checks (C07, C08, C15): struct shapes -> Go source -> gombok built from /repo's working tree
-> go vet / go build -> the generic reflection driver in the same package -> ndjson events."""
import json
import os
import shutil
import subprocess
import tempfile

import vf

KINDS = {
    # kind: (Go types, json-safe)
    "basic": (["int", "string", "bool", "float64", "int64", "uint8"], True),
    "named": (["MyInt", "MyStr", "time.Duration"], True),
    "pointer": (["*int", "*string", "*Inner"], True),
    "slice": (["[]int", "[]string", "[]Inner", "[]byte"], True),
    "array": (["[2]int", "[3]string"], True),
    "map": (["map[string]int", "map[string]Inner", "map[int]string"], True),
    "struct": (["Inner"], True),
    "func": (["func(int) string", "func()"], False),
    "chan": (["chan int"], False),
    "interface": (["any", "fmt.Stringer", "error"], False),
    "option": (["fp.Option[int]", "fp.Option[string]", "fp.Option[[]int]", "fp.Option[Inner]", "fp.Option[*int]"], True),
    "tuple": (["fp.Tuple2[int, string]"], False),
    "seq": (["fp.Seq[int]"], True),
    # types of user packages whose names collide with packages the generated code imports itself
    "userpkg": (["option.Kind", "as.Mark"], True),
}
VIS = ["private", "public", "underscore", "embedded"]
TAGS = ["", 'json:"%s"', 'json:"%s,omitempty"', 'yaml:"%s"']

PRELUDE = '''package %(pkg)s

import (
	"fmt"
	"time"

	"scratch/as"
	"scratch/option"

	"github.com/csgura/fp"
)

//go:generate go run github.com/csgura/fp/cmd/gombok

var _ = fmt.Sprint
var _ time.Duration
var _ fp.Unit
var _ option.Kind
var _ as.Mark

type MyInt int
type MyStr string
type Inner struct {
	A int
	B string
}
type Empty struct{}
type EmbA struct {
	EA int
}

// MyInt is also a fmt.Stringer (a value for embedded interface fields)
func (m MyInt) String() string { return fmt.Sprint(int(m)) }

// Audit is embedded into structs that have fields named like its methods: the generated accessors must win over the promoted ones
type Audit struct {
	Who string
}

func (a Audit) Name() string           { return "audit:" + a.Who }
func (a Audit) WithName(n string) Audit { a.Who = n; return a }
func (a Audit) Note() int              { return -1 }
'''


def field_name(vis, i):
    return {"private": "a%d" % i, "public": "Pub%d" % i, "underscore": "_u%d" % i}[vis]


# short names the generated code also likes for receivers, parameters, locals and imports
TRICKY = ["r", "b", "m", "t", "v", "ok", "fp", "fmt", "json", "as", "i", "o", "err", "x", "s", "ret", "value", "name", "opt", "hash", "next", "option"]


def gen_shapes(rng, n, json_only=False, max_fields=9, tricky=True):
    """seeded shapes; kind x visibility x tag coverage is measured by the caller"""
    shapes = []
    kinds = [k for k, (_, js) in KINDS.items() if js or not json_only]
    for s in range(n):
        nf = rng.randint(1, max_fields)
        fields, embedded_used, used = [], False, set()
        for i in range(1, nf + 1):
            vis = rng.choice(["private"] * 5 + ["public", "underscore", "embedded"])
            if json_only and vis == "embedded":
                vis = "private"
            if vis == "embedded":
                if embedded_used:
                    vis = "private"
                else:
                    embedded_used = True
                    fields.append(dict(vis="embedded", name="", typ=rng.choice(["EmbA", "Empty", "*EmbA", "fmt.Stringer", "MyStr", "Audit"]), tag="", kind="embedded"))
                    continue
            kind = rng.choice(kinds)
            typ = rng.choice(KINDS[kind][0])
            if json_only and typ in ("map[int]string",):
                typ = "map[string]int"
            name = field_name(vis, i)
            if vis == "private" and tricky and rng.random() < 0.3:
                cand = [n for n in TRICKY if n not in used]
                if cand:
                    name = rng.choice(cand)
            used.add(name)
            tag = rng.choice(TAGS)
            if vis != "private":
                tag = ""
            fields.append(dict(vis=vis, name=name, typ=typ, kind=kind, tag=(tag % ("j" + name.lower().strip("_"))) if tag else ""))
        if not any(f["vis"] in ("private", "public") or (f["vis"] == "embedded" and f["typ"] != "Empty") for f in fields):
            fields.append(dict(vis="private", name="a99", typ="int", kind="basic", tag=""))
        safe = all(f["kind"] == "embedded" and False or KINDS.get(f["kind"], (None, False))[1] for f in fields if f["vis"] != "underscore") \
            and not any(f["typ"] == "map[int]string" for f in fields)
        anns = ["Value"]
        if not json_only:
            x = rng.random()
            if x < 0.35:
                anns += rng.sample(["Getter", "With", "Builder", "String", "AllArgsConstructor", "RequiredArgsConstructor"], rng.randint(1, 3))
            elif x < 0.5:
                anns = rng.sample(["Getter", "With", "Builder", "String"], rng.randint(1, 4))
        isval = "Value" in anns
        shapes.append(dict(name="S%d" % s, fields=fields, json=isval and (json_only or (safe and rng.random() < 0.5)), labelled=isval and rng.random() < 0.3, tparams=[], anns=anns))
    return shapes


def special_shapes():
    """the boundary shapes: one field, 21 and 22 fields (the tuple limit), a generic struct, only public fields"""
    def priv(n, typ="int"):
        return [dict(vis="private", name="a%d" % i, typ=typ if i % 3 else "string", kind="basic", tag="") for i in range(1, n + 1)]
    return [
        dict(name="One", fields=priv(1), json=True, labelled=True, tparams=[]),
        dict(name="F21", fields=priv(21), json=True, labelled=True, tparams=[]),
        dict(name="F22", fields=priv(22), json=True, labelled=True, tparams=[]),
        dict(name="F23", fields=priv(23), json=False, labelled=False, tparams=[]),
        dict(name="OnlyPub", fields=[dict(vis="public", name="Pub1", typ="int", kind="basic", tag=""), dict(vis="public", name="Pub2", typ="string", kind="basic", tag="")],
             json=False, labelled=False, tparams=[]),
        dict(name="Gen", fields=[dict(vis="private", name="key", typ="K", kind="typeparam", tag=""), dict(vis="private", name="val", typ="V", kind="typeparam", tag=""),
                                 dict(vis="private", name="opt", typ="fp.Option[V]", kind="option", tag="")],
             json=False, labelled=False, tparams=[("K", "comparable"), ("V", "any")], inst="Gen[int, string]"),
        dict(name="Opts", fields=[dict(vis="private", name="o1", typ="fp.Option[int]", kind="option", tag=""), dict(vis="private", name="o2", typ="fp.Option[string]", kind="option", tag='json:"second"'),
                                  dict(vis="private", name="o3", typ="fp.Option[[]int]", kind="option", tag="")], json=True, labelled=False, tparams=[]),
        dict(name="Mixed", fields=[dict(vis="private", name="a1", typ="int", kind="basic", tag=""), dict(vis="underscore", name="_u2", typ="string", kind="basic", tag=""),
                                   dict(vis="embedded", name="", typ="EmbA", kind="embedded", tag=""), dict(vis="public", name="Pub4", typ="[]int", kind="slice", tag=""),
                                   dict(vis="private", name="a5", typ="func(int) string", kind="func", tag=""), dict(vis="private", name="a6", typ="chan int", kind="chan", tag=""),
                                   dict(vis="private", name="a7", typ="any", kind="interface", tag=""), dict(vis="embedded", name="", typ="Empty", kind="embedded", tag=""),
                                   dict(vis="private", name="a9", typ="error", kind="interface", tag="")],
             json=False, labelled=False, tparams=[]),
        dict(name="Collide", fields=[dict(vis="private", name="o", typ="fp.Option[int]", kind="option", tag=""), dict(vis="private", name="k", typ="option.Kind", kind="userpkg", tag=""),
                                     dict(vis="private", name="m", typ="as.Mark", kind="userpkg", tag=""), dict(vis="private", name="ok", typ="fp.Option[option.Kind]", kind="option", tag="")],
             json=True, labelled=True, tparams=[]),
        # embedded fields that are not structs: a pointer, an interface, a named string
        dict(name="Emb2", json=False, labelled=True, tparams=[],
             fields=[dict(vis="embedded", name="", typ="*EmbA", kind="embedded", tag=""), dict(vis="embedded", name="", typ="fmt.Stringer", kind="embedded", tag=""),
                     dict(vis="embedded", name="", typ="MyStr", kind="embedded", tag=""), dict(vis="private", name="a", typ="int", kind="basic", tag="")]),
        # fields named like methods promoted from an embedded type
        dict(name="Promo", json=False, labelled=False, tparams=[],
             fields=[dict(vis="embedded", name="", typ="Audit", kind="embedded", tag=""), dict(vis="private", name="name", typ="string", kind="basic", tag=""),
                     dict(vis="private", name="note", typ="int", kind="basic", tag=""), dict(vis="private", name="who", typ="fp.Option[string]", kind="option", tag="")]),
        # no field is a constructor argument (all Option / pointer)
        dict(name="ReqNone", anns=["Value", "RequiredArgsConstructor"], json=False, labelled=False, tparams=[],
             fields=[dict(vis="private", name="o", typ="fp.Option[string]", kind="option", tag=""), dict(vis="private", name="p", typ="*int", kind="pointer", tag="")]),
    ] + [dict(name="Ann%d" % i, anns=anns, json=False, labelled=False, tparams=[],
              fields=[dict(vis="private", name="a", typ="int", kind="basic", tag=""), dict(vis="private", name="o", typ="fp.Option[string]", kind="option", tag=""),
                      dict(vis="public", name="P", typ="[]int", kind="slice", tag="")])
         for i, anns in enumerate([["Value", "Getter"], ["Value", "With"], ["Value", "Builder"], ["Value", "String"], ["Value", "Getter", "With", "Builder", "String"],
                                   ["Getter"], ["With"], ["Builder"], ["String"], ["Getter", "With"], ["With", "Builder"], ["Getter", "With", "Builder", "String"],
                                   ["Value", "AllArgsConstructor"], ["Value", "RequiredArgsConstructor"], ["AllArgsConstructor"]])]


def nilable(typ):
    return typ.startswith(("*", "[]", "map[", "chan", "func", "any", "fmt.")) or typ in ("string",)


def go_source(pkg, shapes):
    out = [PRELUDE % dict(pkg=pkg)]
    reg = []
    for sh in shapes:
        anns = sh.get("anns") or ["Value"]
        ann = ["// @fp.%s" % a for a in anns]
        if sh.get("json"):
            ann.append("// @fp.Json")
        if sh.get("labelled"):
            ann.append("// @fp.GenLabelled")
        tp = ""
        if sh["tparams"]:
            tp = "[" + ", ".join("%s %s" % p for p in sh["tparams"]) + "]"
        out.append("\n".join(ann))
        out.append("type %s%s struct {" % (sh["name"], tp))
        for f in sh["fields"]:
            tag = (" `%s`" % f["tag"]) if f["tag"] else ""
            if f["vis"] == "embedded":
                out.append("\t%s" % f["typ"])
            else:
                out.append("\t%s %s%s" % (f["name"], f["typ"], tag))
        out.append("}\n")
        inst = sh.get("inst", sh["name"])
        twin = "nil"
        if sh.get("json") and not sh["tparams"] and not any(f["vis"] == "embedded" for f in sh["fields"]):
            # the independently written twin: the documented tag rule applied by hand
            out.append("type vTwin%s struct {" % sh["name"])
            conv = []
            for f in sh["fields"]:
                if f["vis"] == "underscore":
                    continue
                pub = f["name"][:1].upper() + f["name"][1:]
                if "json" in f["tag"]:
                    tag = f["tag"]
                else:
                    tag = (f["tag"] + " " if f["tag"] else "") + ('json:"%s,omitempty"' % f["name"] if (nilable(f["typ"]) or f["typ"].startswith("fp.Option[")) else 'json:"%s"' % f["name"])
                out.append("\t%s %s `%s`" % (pub, f["typ"], tag))
                conv.append("%s: x.%s" % (pub, f["name"]))
            out.append("}\n")
            twin = "func(v any) any { x := v.(%s); return vTwin%s{%s} }" % (sh["name"], sh["name"], ", ".join(conv))
        reg.append("\t{v: %s{}, json: %s, lab: %s, anns: []string{%s}, twin: %s}," % (inst, "true" if sh.get("json") else "false", "true" if sh.get("labelled") else "false",
                                                                                  ", ".join('"%s"' % a for a in anns), twin))
    registry = ("package %s\n\n// values for interface-typed fields\nvar vIfaceValues = []any{MyInt(3), MyInt(7), MyInt(0)}\n\nvar vRegistry = []vEntry{\n%s\n}\n"
                % (pkg, "\n".join(reg)))
    return "\n".join(out), registry


class Scratch:
    """a scratch Go module outside /repo and /verif with gombok built from the working tree"""

    def __init__(self, c):
        self.c = c
        self.root = tempfile.mkdtemp(prefix="verif-gombok-")
        self.env = dict(os.environ, **vf.GOENV)
        with open(os.path.join(self.root, "go.mod"), "w") as fh:
            fh.write("module scratch\n\ngo 1.23\n\nrequire github.com/csgura/fp v0.0.0\n\nreplace github.com/csgura/fp => %s\n" % vf.REPO)
        shutil.copy(os.path.join(vf.REPO, "go.sum"), os.path.join(self.root, "go.sum"))
        for name, body in (("option", "type Kind int\n"), ("as", "type Mark int\n")):
            os.makedirs(os.path.join(self.root, name))
            with open(os.path.join(self.root, name, name + ".go"), "w") as fh:
                fh.write("// Package %s is a user package that happens to share its name with one the generated code imports.\npackage %s\n\n%s" % (name, name, body))
        self.gombok = os.path.join(self.root, "gombok-bin")
        p = subprocess.run(["go", "build", "-o", self.gombok, "./cmd/gombok"], cwd=vf.REPO, env=self.env, capture_output=True, text=True)
        if p.returncode != 0:
            raise vf.Infra("gombok does not build from the working tree: " + p.stderr[-400:])

    def close(self):
        shutil.rmtree(self.root, ignore_errors=True)

    def package(self, pkg, types_go, extra=None):
        d = os.path.join(self.root, pkg)
        os.makedirs(d, exist_ok=True)
        with open(os.path.join(d, "types.go"), "w") as fh:
            fh.write(types_go)
        for name, text in (extra or {}).items():
            with open(os.path.join(d, name), "w") as fh:
                fh.write(text)
        return d

    def generate(self, pkg, gomaxprocs=None):
        d = os.path.join(self.root, pkg)
        line = 1 + open(os.path.join(d, "types.go")).read().split("//go:generate")[0].count("\n")
        env = dict(self.env, GOPACKAGE=pkg, GOFILE="types.go", GOLINE=str(line))
        if gomaxprocs:
            env["GOMAXPROCS"] = str(gomaxprocs)
        p = subprocess.run([self.gombok], cwd=d, env=env, capture_output=True, text=True, timeout=600)
        return p.returncode, (p.stdout + p.stderr)[-1500:]

    def generated_digest(self, pkg):
        import hashlib
        d = os.path.join(self.root, pkg)
        h = {}
        for f in sorted(os.listdir(d)):
            if f.endswith("_generated.go"):
                h[f] = hashlib.sha256(open(os.path.join(d, f), "rb").read()).hexdigest()[:16]
        return h

    def build(self, pkg, derive=False):
        d = os.path.join(self.root, pkg)
        src = open(os.path.join(vf.HARNESS, "gombok", "driver_test.go.txt")).read().replace("package PKG", "package " + pkg)
        with open(os.path.join(d, "verif_driver_test.go"), "w") as fh:
            fh.write(src)
        if derive:
            src = open(os.path.join(vf.HARNESS, "gombok", "derive_test.go.txt")).read().replace("package PKG", "package " + pkg)
            with open(os.path.join(d, "verif_derive_test.go"), "w") as fh:
                fh.write(src)
        v = subprocess.run(["go", "vet", "-structtag=false", "-copylocks=false", "./" + pkg], cwd=self.root, env=self.env, capture_output=True, text=True)
        b = subprocess.run(["go", "build", "./" + pkg], cwd=self.root, env=self.env, capture_output=True, text=True)
        return b.returncode == 0, v.returncode == 0, (b.stderr + v.stderr)[-1500:]

    def drive(self, pkg, seed, test="TestVerifDriver"):
        d = os.path.join(self.root, pkg)
        out = os.path.join(d, "events.ndjson")
        if os.path.exists(out):
            os.remove(out)
        env = dict(self.env, VERIF_OUT=out, VERIF_SEED=str(seed))
        p = subprocess.run(["go", "test", "-vet=off", "-count=1", "-run", test + "$", "./" + pkg], cwd=self.root, env=env, capture_output=True, text=True, timeout=900)
        events = [json.loads(l) for l in open(out)] if os.path.exists(out) else []
        return p.returncode, (p.stdout + p.stderr)[-2500:], events
