"""Shared by C12 and C20: run iterator cases on the real library and let TLC (TraceIter) judge them."""
import json

import vf


def classify(rej):
    ev = rej["line"]
    init = rej["events"][0]
    case = json.loads(init["case"])
    stages = "+".join(s["t"] for s in case.get("pipe") or []) or "-"
    where = "%s|%s|%s" % (case.get("ctor") or "src", stages, case.get("two") or "-")
    e = ev["e"]
    if e in ("Has", "Next"):
        # which conjunct failed: recompute the cheap part (answer) here for the label only
        return "%s-%s:%s" % (e.lower(), "answer-or-demand", where)
    if e == "Budget":
        return "pulls-unbounded-source-without-need-during-%s:%s" % (ev["during"], where)
    if e in ("PanicWhole", "PanicHas", "PanicBuild"):
        return "%s-%s:%s" % (e.lower(), ev.get("op", ""), where)
    if e == "Whole":
        return "whole-%s-wrong:%s" % (ev.get("op"), where)
    if e == "Init":
        return "construction-pulls-too-much:%s" % where
    return e.lower() + ":" + where


def describe(rej):
    ev = {k: v for k, v in rej["line"].items() if k != "case"}
    idx = rej["index_in_trace"]
    prior = [{k: v for k, v in e.items() if k not in ("case", "tr")} for e in rej["events"][max(1, idx - 3):idx]]
    return "iterator execution rejected by IterSpec at %s (after %s)" % (json.dumps(ev), json.dumps(prior)[:300])


def run_cases(c, prop, gens, label):
    summary, out = c.harness("c20", gens, name=label, timeout=3000)
    c.cov["evaluations"] += summary["events"]
    for k, v in summary.items():
        if k not in ("events", "traces"):
            c.extra["cases_" + k] = c.extra.get("cases_" + k, 0) + v
    rejected = c.validate(out, "TraceIter", max_rejects=40, timeout=3000)
    classes = set()
    for rej in rejected:
        k = classify(rej)
        c.extra.setdefault("rejected_by_class", {}).setdefault(k, 0)
        c.extra["rejected_by_class"][k] += 1
        if k in classes:
            continue
        classes.add(k)
        case = json.loads(rej["events"][0]["case"])
        _, o2 = c.harness("c20", [dict(kind=case.get("origin", "replay"), cases=[case])], name="confirm")
        again = c.validate(o2, "TraceIter", max_rejects=1)
        if not again:
            raise vf.Infra("rejected iterator execution did not reproduce")
        c.report(prop + ":" + classify(again[0]), dict(case=case, unexplained={k: v for k, v in again[0]["line"].items() if k != "case"}),
                 describe(again[0]))
    return out


def replay(c, prop):
    rp = json.load(open(c.replay))
    _, out = c.harness("c20", [dict(kind="replay", cases=[rp["case"]])], name="replay")
    rej = c.validate(out, "TraceIter", max_rejects=1)
    if rej:
        c.report(prop + ":" + classify(rej[0]), dict(case=rp["case"], unexplained={k: v for k, v in rej[0]["line"].items() if k != "case"}),
                 describe(rej[0]))


def count_nontrivial(c, out, rule):
    """distinct = distinct (case, call pattern); non-trivial = the pattern misuses the protocol (Next on exhausted, repeated
    HasNext) or interleaves two sides or the source is unbounded"""
    seen, non = set(), 0
    for line in open(out):
        ev = json.loads(line)
        if ev["e"] != "Init":
            continue
        case = json.loads(ev["case"])
        key = json.dumps({k: case.get(k) for k in ("src", "ctor", "pipe", "two", "twop", "calls", "whole", "inf")}, sort_keys=True)
        if key in seen:
            continue
        seen.add(key)
        calls = case.get("calls", "")
        if "HH" in calls or "NN" in calls or case.get("two") or case.get("inf") or any(ch in calls for ch in "hn"):
            non += 1
        if len(c.cov["samples"]) < 4 and len(seen) % 211 == 7:
            c.cov["samples"].append(case)
    c.cov["distinct_nontrivial"] += non
    c.extra["distinct_cases"] = c.extra.get("distinct_cases", 0) + len(seen)
    c.cov["rule"] = rule
