"""Universes of abstract values for the typeclass checks (C09, C10, C18): the type grammar is the one the emitter
harness/gen/typeclass_gen.py compiled into the harness; values are generated here, seeded."""
import json
import os
import sys

import vf

sys.path.insert(0, os.path.join(vf.HARNESS, "gen"))
import typeclass_gen as G  # noqa: E402

TYPES = list(G.TYPES)
tid = G.tid


def supports(cls, t):
    return G.inst(cls, t) is not None


def universe(t, rng, size, pid):
    """distinct representations of equal values included; pid: counter for pointer identities"""
    k = t[0]
    if k == "int":
        vals = [dict(t="int", n=n) for n in (0, 1, 2, -1, 3)]
    elif k == "f64":
        # halves; nil marks the negative zero (the same abstract value as the positive one)
        vals = [dict(t="int", n=0), dict(t="int", n=0, nil=True), dict(t="int", n=1), dict(t="int", n=-1), dict(t="int", n=3), dict(t="int", n=-4)]
    elif k == "time":
        vals = [dict(t="int", n=n) for n in (0, 3, 2, 5, 1, 4, 6)]
    elif k == "str":
        vals = [dict(t="str", cs=cs) for cs in ([], [97], [98], [97, 98], [97, 97], [98, 97])]
    elif k == "bytes":
        vals = [dict(t="bytes", cs=[], nil=True), dict(t="bytes", cs=[], nil=False)] + [dict(t="bytes", cs=cs, nil=False) for cs in ([1], [2], [1, 2], [1, 1])]
    elif k == "opt":
        sub = universe(t[1], rng, max(3, size - 1), pid)
        vals = [dict(t="none")] + [dict(t="some", v=x) for x in sub]
    elif k in ("seq", "slice"):
        sub = universe(t[1], rng, 3, pid)
        vals = [dict(t="seq", xs=[], nil=True), dict(t="seq", xs=[], nil=False), dict(t="seq", xs=[], nil=False, cap=2)]
        for x in sub[:3]:
            vals.append(dict(t="seq", xs=[x], nil=False))
        if len(sub) >= 2:
            vals += [dict(t="seq", xs=[sub[0], sub[1]], nil=False), dict(t="seq", xs=[sub[1], sub[0]], nil=False, cap=3),
                     dict(t="seq", xs=[sub[0], sub[0]], nil=False), dict(t="seq", xs=[sub[0], sub[1], sub[0]], nil=False)]
    elif k == "ptr":
        sub = universe(t[1], rng, 3, pid)
        vals = [dict(t="nilptr")]
        for x in sub[:3]:
            pid[0] += 1
            vals.append(dict(t="ptr", id=pid[0], v=x))
        # a second pointer to an equal target, and the same pointer again
        pid[0] += 1
        vals.append(dict(t="ptr", id=pid[0], v=sub[0]))
        vals.append(dict(vals[1]))
    elif k in ("gomap", "fpmap", "fkmap"):
        sub = universe(t[1], rng, 3, pid)
        vals = [dict(t="map", ks=[], vs=[], nil=False)]
        if k in ("gomap", "fkmap"):
            vals.append(dict(t="map", ks=[], vs=[], nil=True))
        if k == "fkmap":
            # key 9 is NaN
            vals += [dict(t="map", ks=[9], vs=[sub[-1]], nil=False), dict(t="map", ks=[1, 9], vs=[sub[0], sub[-1]], nil=False)]
        vals += [dict(t="map", ks=[1], vs=[sub[0]], nil=False), dict(t="map", ks=[2], vs=[sub[0]], nil=False)]
        if len(sub) >= 2:
            vals += [dict(t="map", ks=[1], vs=[sub[1]], nil=False), dict(t="map", ks=[1, 2], vs=[sub[0], sub[1]], nil=False),
                     dict(t="map", ks=[1, 2], vs=[sub[1], sub[0]], nil=False), dict(t="map", ks=[1, 3], vs=[sub[0], sub[1]], nil=False)]
    elif k == "wrap":
        vals = [dict(t="wrap", v=x) for x in universe(t[1], rng, size, pid)]
    elif k in ("tup", "hl"):
        subs = [universe(x, rng, 3, pid) for x in t[1:]]
        base = [s[0] for s in subs]
        vals = [dict(t="tup", xs=list(base))]
        # vary one component at a time (first, last, a random one), then random tuples
        pos = sorted({0, len(subs) - 1, rng.randrange(len(subs))})
        for p in pos:
            for alt in subs[p][1:3]:
                xs = list(base)
                xs[p] = alt
                vals.append(dict(t="tup", xs=xs))
        for _ in range(3):
            vals.append(dict(t="tup", xs=[rng.choice(s) for s in subs]))
    else:
        raise ValueError(t)
    if len(vals) > size:
        keep = vals[:3] + rng.sample(vals[3:], size - 3)
        vals = keep
    return json.loads(json.dumps(vals))


def cases(cls, rng, per_type=10, what=None, types=None):
    out = []
    for t in (types or TYPES):
        if not supports(cls, t):
            continue
        pid = [0]
        vals = universe(t, rng, per_type, pid)
        out.append(dict(ty=tid(t), what=what or cls, vals=vals))
    return out
