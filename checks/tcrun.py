"""Driver shared by C09 / C10 / C18: run typeclass cases on the real library, let TLC (TraceTypeclass) judge."""
import json

import vf


def classify(rej):
    ev = rej["line"]
    if ev["e"] in ("Eq", "Hash", "Ord", "Clone"):
        return "%s-%s%s" % (ev["e"].lower(), ev.get("ty"), ("-" + ev["cls"]) if ev.get("cls") and ev["cls"] != "eq" else "")
    if ev["e"] == "EqAlias":
        return "eq-alias-%s" % ev.get("ty")
    if ev["e"] == "Sort":
        return "sort-" + ev["impl"]
    if ev["e"] == "Timeout":
        first = rej["events"][0]
        return "does-not-terminate-%s-%s" % (first.get("ty"), first.get("what"))
    if ev["e"] == "Panic":
        return "panic-%s-%s" % (ev.get("ty"), ev.get("what"))
    return ev["e"].lower()


def brief(ev):
    e = dict(ev)
    for k in ("vals",):
        e.pop(k, None)
    return json.dumps(e)[:500]


def run_cases(c, prop, cases, label):
    # one trace per case keeps the rejected unit small
    summary, out = c.harness("tc", cases, name=label, timeout=3000)
    c.cov["evaluations"] += summary["events"]
    for k, v in summary.items():
        if k not in ("events", "traces"):
            c.extra["cases_" + k] = c.extra.get("cases_" + k, 0) + v
    rejected = c.validate(out, "TraceTypeclass", max_rejects=40, timeout=3000)
    classes = set()
    for rej in rejected:
        k = classify(rej)
        c.extra.setdefault("rejected_by_class", {}).setdefault(k, 0)
        c.extra["rejected_by_class"][k] += 1
        if k in classes:
            continue
        classes.add(k)
        case = cases[rej["tr"]]
        _, o2 = c.harness("tc", [case], name="confirm")
        again = c.validate(o2, "TraceTypeclass", max_rejects=1)
        if not again:
            raise vf.Infra("rejected typeclass observation did not reproduce")
        c.report(prop + ":" + classify(again[0]), dict(case=case, observed=again[0]["line"]),
                 "the real instance disagrees with Typeclass.tla (%s): %s" % (classify(again[0]), brief(again[0]["line"])))
    # samples / non-trivial: universes containing two distinct representations of one value, or >= 2-component products
    non = 0
    for cs in cases:
        txt = json.dumps(cs)
        if '"nil": true' in txt or '"id"' in txt or cs.get("what") == "sort" and len(cs.get("in", [])) >= 2 or '"tup"' in txt:
            non += 1
    c.cov["distinct_nontrivial"] += non
    for cs in cases[:: max(1, len(cases) // 3)][:3]:
        c.sample(dict(ty=cs.get("ty"), what=cs["what"], vals=(cs.get("vals") or cs.get("in"))[:3]))
    return out


ARITY_FAMILIES = {"C09": ["eq.Tuple", "hash.Tuple"], "C10": ["ord.Tuple"], "C18": ["clone.Tuple"]}


def replay(c, prop):
    rp = json.load(open(c.replay))
    if rp.get("kind") == "arity":
        import aritylib
        aritylib.family_subrun(c, prop, ARITY_FAMILIES[prop])
        return
    _, out = c.harness("tc", [rp["case"]], name="replay")
    rej = c.validate(out, "TraceTypeclass", max_rejects=1)
    if rej:
        c.report(prop + ":" + classify(rej[0]), dict(case=rp["case"], observed=rej[0]["line"]), "replayed: %s" % brief(rej[0]["line"]))
