//go:build verif

package main

// ---- C14: arity-indexed families; the calls are generated (arity_gen.go) ----

func arityDedup(r []int) []int {
	var o []int
	for _, x := range r {
		if len(o) == 0 || o[len(o)-1] != x {
			o = append(o, x)
		}
	}
	return o
}

func cmdArity(args []string) {
	if len(args) != 2 {
		fatal("usage: fpcheck arity - out.ndjson")
	}
	out := NewOut(args[1])
	defer out.Close()
	n := 0
	arityAll(func(fam string, k int, wiring []int, calls int) {
		if wiring == nil {
			wiring = []int{}
		}
		out.Ev("Arity", "fam", fam, "n", k, "w", wiring, "calls", calls)
		out.tr++
		n++
	})
	s := Summary{"events": out.n, "traces": out.tr, "members": n}
	s.Print()
}

func init() { commands["arity"] = cmdArity }
