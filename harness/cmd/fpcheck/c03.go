//go:build verif

package main

import (
	"encoding/json"
	"fmt"
	"math/rand"

	"github.com/csgura/fp"
	"github.com/csgura/fp/as"
	"github.com/csgura/fp/immutable"
	"github.com/csgura/fp/iterator"
	"github.com/csgura/fp/list"
	"github.com/csgura/fp/seq"
)

// ---- C03 / C04: immutable Map/Set histories against the version store of Persist.tla ----

type C03Op struct {
	Op   string   `json:"op"` // new updated removed removed2 upw concat incl excl union diff intersect same subset newb badd build
	Kd   string   `json:"kd"` // map | set
	A    int      `json:"a"`
	B    int      `json:"b"`
	K    int      `json:"k"`
	K2   int      `json:"k2"`
	V    int      `json:"v"`
	Fn   string   `json:"fn"`
	Ps   [][2]int `json:"ps"`
	Ctor string   `json:"ctor,omitempty"`
}

type C03Case struct {
	NK      int     `json:"nk"`
	Hasher  string  `json:"hasher"` // identity | low | const | high | table
	Coarse  bool    `json:"coarse"` // Eqv identifies k and k+NK
	Steps   int     `json:"steps,omitempty"`
	Seed    int64   `json:"seed,omitempty"`
	Branch  bool    `json:"branch,omitempty"` // any live version may be the source of the next operation
	KeysCap int     `json:"keyscap,omitempty"`
	Live    int     `json:"live,omitempty"` // older versions re-observed after every step
	Init    int     `json:"init,omitempty"` // number of entries of the first version (0: random small)
	Ops     []C03Op `json:"ops,omitempty"`  // explicit history (replay of TLC-generated behaviours)
	Origin  string  `json:"origin,omitempty"`
}

type c03Hasher struct {
	nk     int
	kind   string
	coarse bool
	table  []uint32
}

func (h c03Hasher) class(a int) int {
	if h.coarse {
		return (a-1)%h.nk + 1
	}
	return a
}
func (h c03Hasher) Eqv(a, b int) bool { return h.class(a) == h.class(b) }
func (h c03Hasher) Hash(a int) uint32 {
	c := uint32(h.class(a))
	switch h.kind {
	case "low":
		return c % 4
	case "const":
		return 7
	case "high":
		return c << 27
	case "table":
		return h.table[c%uint32(len(h.table))]
	case "mid": // collides in the low 10 bits, differs above: deep single-child chains
		return (c << 10) | 0x155
	}
	return c
}

type c03Ver struct {
	kd    string
	m     fp.Map[int, int]
	s     fp.Set[int]
	gomap bool // backed by a plain Go map (zero value): the custom Eqv does not apply
}

type c03World struct {
	c    C03Case
	h    c03Hasher
	r    *rand.Rand
	vers []c03Ver
	out  *Out
}

// rep picks a representation of abstract key k (k or k+NK when the Eqv is coarse)
func (w *c03World) rep(k int, canonical bool) int {
	if w.c.Coarse && !canonical && w.r.Intn(2) == 1 {
		return k + w.c.NK
	}
	return k
}

// observe projects a version through the public API.  A panic inside the library while doing so (an iterator running past
// its node, ...) is part of the observation: it is reported as dups = 1000 + (number of elements delivered before the
// panic), which no specification accepts (the iterator delivers every entry exactly once).
func (w *c03World) observe(v c03Ver) (obs []int, size int, empty bool, it []int, dups int) {
	defer func() {
		if r := recover(); r != nil {
			dups += 1000
			if obs == nil {
				obs = make([]int, w.c.NK)
			}
			if it == nil {
				it = make([]int, w.c.NK)
			}
		}
	}()
	return w.observe0(v)
}

func (w *c03World) observe0(v c03Ver) (obs []int, size int, empty bool, it []int, dups int) {
	nk := w.c.NK
	obs = make([]int, nk)
	it = make([]int, nk)
	seen := make([]bool, nk)
	if v.kd == "map" {
		for k := 1; k <= nk; k++ {
			o := v.m.Get(w.rep(k, v.gomap))
			if o.IsDefined() {
				obs[k-1] = o.Get()
				if !v.m.Contains(k) {
					obs[k-1] = -1
				}
			}
		}
		size, empty = v.m.Size(), v.m.IsEmpty()
		itr := v.m.Iterator()
		for itr.HasNext() {
			t := itr.Next()
			c := (t.I1-1)%nk + 1
			if seen[c-1] {
				dups++
			}
			seen[c-1] = true
			it[c-1] = t.I2
		}
	} else {
		for k := 1; k <= nk; k++ {
			if v.s.Contains(w.rep(k, v.gomap)) {
				obs[k-1] = 1
			}
		}
		size, empty = v.s.Size(), v.s.IsEmpty()
		itr := v.s.Iterator()
		for itr.HasNext() {
			c := (itr.Next()-1)%nk + 1
			if seen[c-1] {
				dups++
			}
			seen[c-1] = true
			it[c-1] = 1
		}
	}
	return
}

func remap(fn string, v int) func(fp.Option[int]) fp.Option[int] {
	return func(cur fp.Option[int]) fp.Option[int] {
		c := cur.OrElse(0)
		n := c
		switch fn {
		case "inc":
			if c == 0 || c >= 3 {
				n = 1
			} else {
				n = c + 1
			}
		case "del":
			n = 0
		case "set":
			n = v
		}
		if n == 0 {
			return fp.None[int]()
		}
		return fp.Some(n)
	}
}

func (w *c03World) newMap(ps [][2]int, ctor string) c03Ver {
	tp := make([]fp.Tuple2[int, int], len(ps))
	for i, p := range ps {
		tp[i] = as.Tuple2(w.rep(p[0], ctor == "zero"), p[1])
	}
	switch ctor {
	case "zero":
		var m fp.Map[int, int]
		for _, t := range tp {
			m = m.Updated(t.I1, t.I2)
		}
		return c03Ver{kd: "map", m: m, gomap: true}
	case "seq":
		return c03Ver{kd: "map", m: seq.ToMap(fp.Seq[fp.Tuple2[int, int]](tp), w.h)}
	case "iterator":
		return c03Ver{kd: "map", m: iterator.ToMap(fp.IteratorOfSeq(tp), w.h)}
	case "list":
		return c03Ver{kd: "map", m: list.ToMap(list.Of(tp...), w.h)}
	case "concat":
		return c03Ver{kd: "map", m: immutable.Map[int, int](w.h).Concat(iterableOf[fp.Tuple2[int, int]](tp))}
	}
	return c03Ver{kd: "map", m: immutable.Map(w.h, tp...)}
}

func (w *c03World) newSet(ps [][2]int, ctor string) c03Ver {
	ks := make([]int, len(ps))
	for i, p := range ps {
		ks[i] = w.rep(p[0], ctor == "zero")
	}
	switch ctor {
	case "zero":
		var s fp.Set[int]
		for _, k := range ks {
			s = s.Incl(k)
		}
		return c03Ver{kd: "set", s: s, gomap: true}
	case "seq":
		return c03Ver{kd: "set", s: seq.ToSet(fp.Seq[int](ks), w.h)}
	case "iterator":
		return c03Ver{kd: "set", s: iterator.ToSet(fp.IteratorOfSeq(ks), w.h)}
	case "list":
		return c03Ver{kd: "set", s: list.ToSet(list.Of(ks...), w.h)}
	}
	return c03Ver{kd: "set", s: immutable.Set(w.h, ks...)}
}

// exec performs one operation on the real library and logs it with everything observable.
func (w *c03World) exec(o C03Op, builders *[]*c03B) {
	defer func() {
		if r := recover(); r != nil {
			w.out.Ev("Panic", "op", o.Op, "kd", o.Kd, "v", fmt.Sprint(r))
		}
	}()
	var nv c03Ver
	a := func() c03Ver { return w.vers[o.A-1] }
	b := func() c03Ver { return w.vers[o.B-1] }
	canon := func(v c03Ver) bool { return v.gomap }
	switch o.Op {
	case "new":
		if o.Kd == "map" {
			nv = w.newMap(o.Ps, o.Ctor)
		} else {
			nv = w.newSet(o.Ps, o.Ctor)
		}
	case "updated":
		nv = c03Ver{kd: "map", m: a().m.Updated(w.rep(o.K, canon(a())), o.V), gomap: a().gomap}
	case "removed":
		nv = c03Ver{kd: "map", m: a().m.Removed(w.rep(o.K, canon(a()))), gomap: a().gomap}
	case "removed2":
		nv = c03Ver{kd: "map", m: a().m.Removed(w.rep(o.K, canon(a())), w.rep(o.K2, canon(a()))), gomap: a().gomap}
	case "upw":
		nv = c03Ver{kd: "map", m: a().m.UpdatedWith(w.rep(o.K, canon(a())), remap(o.Fn, o.V)), gomap: a().gomap}
	case "concat":
		nv = c03Ver{kd: "map", m: a().m.Concat(b().m), gomap: a().gomap}
	case "incl":
		nv = c03Ver{kd: "set", s: a().s.Incl(w.rep(o.K, canon(a()))), gomap: a().gomap}
	case "excl":
		nv = c03Ver{kd: "set", s: a().s.Excl(w.rep(o.K, canon(a()))), gomap: a().gomap}
	case "union":
		nv = c03Ver{kd: "set", s: a().s.Concat(b().s), gomap: a().gomap}
	case "diff":
		nv = c03Ver{kd: "set", s: a().s.Diff(b().s), gomap: a().gomap}
	case "intersect":
		nv = c03Ver{kd: "set", s: a().s.Intersect(b().s), gomap: a().gomap}
	case "same":
		nv = a()
	case "subset":
		w.out.Ev("Subset", "a", o.A, "b", o.B, "r", a().s.SubsetOf(b().s))
		return
	case "newb":
		nb := &c03B{kd: o.Kd}
		if o.Kd == "map" {
			mb := immutable.MapBuilder[int, int](w.h)
			nb.add = func(k, v int) { mb.Add(k, v) }
			nb.build = func() c03Ver { return c03Ver{kd: "map", m: mb.Build()} }
		} else {
			sb := immutable.SetBuilder[int](w.h)
			nb.add = func(k, v int) { sb.Add(k) }
			nb.build = func() c03Ver { return c03Ver{kd: "set", s: sb.Build()} }
		}
		*builders = append(*builders, nb)
		w.out.Ev("NewB", "kd", o.Kd)
		return
	case "badd":
		nb := (*builders)[o.A-1]
		panicked := false
		func() {
			defer func() {
				if r := recover(); r != nil {
					panicked = true
				}
			}()
			nb.add(w.rep(o.K, false), o.V)
		}()
		w.out.Ev("BAdd", "b", o.A, "k", o.K, "v", o.V, "panicked", panicked)
		w.relive("BAdd")
		return
	case "build":
		nv = (*builders)[o.A-1].build()
	default:
		fatal("c03: unknown op", o.Op)
	}
	w.vers = append(w.vers, nv)
	obs, size, empty, it, dups := w.observe(nv)
	w.out.Ev("Op", "op", o.Op, "kd", o.Kd, "a", o.A, "b", o.B, "k", o.K, "k2", o.K2, "v", o.V, "fn", o.Fn, "ps", nonNil(o.Ps),
		"ctor", o.Ctor, "dst", len(w.vers), "obs", obs, "size", size, "empty", empty, "it", it, "dups", dups, "live", w.live())
}

type c03B struct {
	kd    string
	add   func(k, v int)
	build func() c03Ver
	built bool
}

type iterableOf[T any] []T

func (r iterableOf[T]) Iterator() fp.Iterator[T] { return fp.IteratorOfSeq([]T(r)) }

func nonNil(p [][2]int) [][2]int {
	if p == nil {
		return [][2]int{}
	}
	return p
}

// live re-observes older versions: the source versions of the last operation first, then random ones
func (w *c03World) live() [][]any {
	n := w.c.Live
	res := [][]any{}
	if n == 0 || len(w.vers) < 2 {
		return res
	}
	pick := map[int]bool{}
	for i := 0; i < n && i < len(w.vers)-1; i++ {
		pick[w.r.Intn(len(w.vers)-1)] = true
	}
	if n >= len(w.vers) {
		for i := 0; i < len(w.vers)-1; i++ {
			pick[i] = true
		}
	}
	for i := 0; i < len(w.vers)-1; i++ {
		if pick[i] {
			obs, size, _, it, dups := w.observe(w.vers[i])
			res = append(res, []any{i + 1, obs, size, it, dups})
		}
	}
	return res
}

func (w *c03World) relive(after string) {
	all := [][]any{}
	for i := range w.vers {
		obs, size, _, it, dups := w.observe(w.vers[i])
		all = append(all, []any{i + 1, obs, size, it, dups})
	}
	w.out.Ev("Check", "after", after, "live", all)
}

func c03Run(out *Out, c C03Case) int {
	r := rand.New(rand.NewSource(c.Seed))
	h := c03Hasher{nk: c.NK, kind: c.Hasher, coarse: c.Coarse}
	if c.Hasher == "table" {
		h.table = make([]uint32, c.NK+1)
		for i := range h.table {
			switch r.Intn(3) {
			case 0:
				h.table[i] = uint32(r.Intn(4))
			case 1:
				h.table[i] = r.Uint32()
			default:
				h.table[i] = uint32(r.Intn(64)) << 5
			}
		}
	}
	w := &c03World{c: c, h: h, r: r, out: out}
	cj, _ := json.Marshal(c)
	out.Ev("Init", "nk", c.NK, "case", string(cj))
	var builders []*c03B
	ops := c.Ops
	if ops == nil {
		ops = c03Generate(w, &builders)
	} else {
		for _, o := range ops {
			w.exec(o, &builders)
		}
	}
	w.relive("end")
	return len(ops)
}

// c03Generate draws a random history; operations are executed as they are drawn because the set of
// live versions decides what can come next.
func c03Generate(w *c03World, builders *[]*c03B) []C03Op {
	c, r := w.c, w.r
	kcap := c.KeysCap
	if kcap == 0 || kcap > c.NK {
		kcap = c.NK
	}
	key := func() int { return r.Intn(kcap) + 1 }
	var ops []C03Op
	do := func(o C03Op) {
		ops = append(ops, o)
		w.exec(o, builders)
	}
	pairs := func(n int) [][2]int {
		ps := make([][2]int, n)
		for i := range ps {
			ps[i] = [2]int{key(), r.Intn(3) + 1}
		}
		return ps
	}
	ctors := []string{"varargs", "seq", "iterator", "list", "zero", "concat"}
	// initial versions
	kd := "map"
	if r.Intn(3) == 0 {
		kd = "set"
	}
	ct := ctors[r.Intn(len(ctors))]
	if kd == "set" && ct == "concat" {
		ct = "varargs"
	}
	n0 := r.Intn(4)
	if r.Intn(4) == 0 {
		n0 = r.Intn(kcap + 1)
	}
	if c.Init > 0 {
		n0 = c.Init
	}
	do(C03Op{Op: "new", Kd: kd, Ps: pairs(n0), Ctor: ct})
	lastOf := func(kind string) int {
		// source version: the newest of that kind (linear history) or any of that kind (branching)
		var idx []int
		for i, v := range w.vers {
			if v.kd == kind {
				idx = append(idx, i+1)
			}
		}
		if len(idx) == 0 {
			return 0
		}
		if c.Branch && r.Intn(3) != 0 {
			return idx[r.Intn(len(idx))]
		}
		return idx[len(idx)-1]
	}
	anyOf := func(kind string, sameBacking bool) int {
		var idx []int
		for i, v := range w.vers {
			if v.kd == kind && (!sameBacking || !v.gomap) {
				idx = append(idx, i+1)
			}
		}
		if len(idx) == 0 {
			return 0
		}
		return idx[r.Intn(len(idx))]
	}
	growing := true
	for len(ops) < c.Steps {
		if r.Intn(40) == 0 {
			growing = !growing // phases of growth and of shrinking back
		}
		if r.Intn(25) == 0 {
			k2 := "map"
			if r.Intn(2) == 0 {
				k2 = "set"
			}
			ct := ctors[r.Intn(5)]
			do(C03Op{Op: "new", Kd: k2, Ps: pairs(r.Intn(6)), Ctor: ct})
			continue
		}
		if r.Intn(30) == 0 && len(*builders) < 3 {
			k2 := "map"
			if r.Intn(2) == 0 {
				k2 = "set"
			}
			do(C03Op{Op: "newb", Kd: k2})
			continue
		}
		if len(*builders) > 0 && r.Intn(6) == 0 {
			bi := r.Intn(len(*builders)) + 1
			if r.Intn(5) == 0 && !(*builders)[bi-1].built {
				(*builders)[bi-1].built = true
				do(C03Op{Op: "build", Kd: (*builders)[bi-1].kd, A: bi})
			} else {
				do(C03Op{Op: "badd", Kd: (*builders)[bi-1].kd, A: bi, K: key(), V: r.Intn(3) + 1})
			}
			continue
		}
		kd := "map"
		if lastOf("set") != 0 && (lastOf("map") == 0 || r.Intn(3) == 0) {
			kd = "set"
		}
		a := lastOf(kd)
		if a == 0 {
			do(C03Op{Op: "new", Kd: kd, Ps: pairs(2), Ctor: "varargs"})
			continue
		}
		x := r.Intn(100)
		if !growing {
			x = (x + 50) % 100
			if x < 50 {
				x = 100 - x
			}
		}
		if kd == "map" {
			switch {
			case x < 45:
				do(C03Op{Op: "updated", Kd: kd, A: a, K: key(), V: r.Intn(3) + 1})
			case x < 55:
				do(C03Op{Op: "upw", Kd: kd, A: a, K: key(), V: r.Intn(3) + 1, Fn: []string{"inc", "del", "set", "keep"}[r.Intn(4)]})
			case x < 60:
				if b := anyOf("map", false); b != 0 && (w.vers[a-1].gomap == w.vers[b-1].gomap || !w.c.Coarse) {
					do(C03Op{Op: "concat", Kd: kd, A: a, B: b})
				}
			case x < 63:
				do(C03Op{Op: "same", Kd: kd, A: a})
			case x < 90:
				do(C03Op{Op: "removed", Kd: kd, A: a, K: key()})
			default:
				k1 := key()
				k2 := key()
				if r.Intn(2) == 0 { // keys that meet in one slot of the root but part ways below it
					k2 = (k1+31)%c.NK + 1
				}
				do(C03Op{Op: "removed2", Kd: kd, A: a, K: k1, K2: k2})
			}
		} else {
			b := anyOf("set", false)
			compatible := b != 0 && (w.vers[a-1].gomap == w.vers[b-1].gomap || !w.c.Coarse)
			switch {
			case x < 40:
				do(C03Op{Op: "incl", Kd: kd, A: a, K: key()})
			case x < 46 && compatible:
				do(C03Op{Op: "union", Kd: kd, A: a, B: b})
			case x < 52 && compatible:
				do(C03Op{Op: "diff", Kd: kd, A: a, B: b})
			case x < 58 && compatible:
				do(C03Op{Op: "intersect", Kd: kd, A: a, B: b})
			case x < 64 && compatible:
				do(C03Op{Op: "subset", Kd: kd, A: a, B: b})
			default:
				do(C03Op{Op: "excl", Kd: kd, A: a, K: key()})
			}
		}
	}
	return ops
}

func cmdC03(args []string) {
	if len(args) != 2 {
		fatal("usage: fpcheck c03 cases.json out.ndjson")
	}
	var cases []C03Case
	readJSON(args[0], &cases)
	out := NewOut(args[1])
	defer out.Close()
	sum := Summary{}
	for _, c := range cases {
		c := c
		deadline(out, caseDeadline, func() { sum.Inc("ops", c03Run(out, c)) })
		out.tr++
	}
	sum["events"] = out.n
	sum["traces"] = out.tr
	sum.Print()
}

func init() { commands["c03"] = cmdC03 }
