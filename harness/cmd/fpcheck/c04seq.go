//go:build verif

package main

import (
	"encoding/json"
	"fmt"
	"math/rand"

	"github.com/csgura/fp"
	"github.com/csgura/fp/hash"
	"github.com/csgura/fp/iterator"
	"github.com/csgura/fp/lazy"
	"github.com/csgura/fp/list"
	"github.com/csgura/fp/monoid"
	"github.com/csgura/fp/ord"
	"github.com/csgura/fp/seq"
)

// ---- C04 (and the eager reference of C12): sequence-like values against SeqStore.tla ----

type SeqOp struct {
	Op   string `json:"op"`
	Impl string `json:"impl"` // seq | iterator | list
	A    int    `json:"a"`
	B    int    `json:"b"`
	N    int    `json:"n"`
	X    int    `json:"x"`
	P    string `json:"p"`
	F    string `json:"f"`
	Lit  []int  `json:"lit"`
	How  string `json:"how,omitempty"` // lit: fresh | spare | sub
}

type SeqCase struct {
	Steps  int     `json:"steps"`
	Seed   int64   `json:"seed"`
	MaxLen int     `json:"maxlen"`
	Impls  string  `json:"impls,omitempty"` // "all" or "seq"
	Ops    []SeqOp `json:"ops,omitempty"`
	Origin string  `json:"origin,omitempty"`
}

func seqPred(p string) func(int) bool {
	switch p {
	case "even":
		return func(x int) bool { return x%2 == 0 }
	case "odd":
		return func(x int) bool { return ((x%2)+2)%2 == 1 }
	case "lt3":
		return func(x int) bool { return x < 3 }
	case "ge2":
		return func(x int) bool { return x >= 2 }
	case "true":
		return func(int) bool { return true }
	}
	return func(int) bool { return false }
}

func seqFn(f string) func(int) int {
	switch f {
	case "inc":
		return func(x int) int { return x + 1 }
	case "dbl":
		return func(x int) int { return 2 * x }
	case "neg":
		return func(x int) int { return -x }
	case "mod3":
		return func(x int) int { return ((x % 3) + 3) % 3 }
	}
	return func(x int) int { return x }
}

type seqVer struct {
	s    fp.Seq[int]
	base []int // non-nil: a raw backing array handed to the library, observed up to its capacity
}

type seqWorld struct {
	vers []seqVer
	out  *Out
	r    *rand.Rand
}

func (w *seqWorld) obs(i int) []int {
	v := w.vers[i]
	src := []int(v.s)
	if v.base != nil {
		src = v.base[:cap(v.base)]
	}
	o := make([]int, len(src))
	copy(o, src)
	return o
}

func optSeq(o fp.Option[int]) fp.Seq[int] {
	if o.IsDefined() {
		return fp.Seq[int]{o.Get()}
	}
	return fp.Seq[int]{}
}

func zipEnc(t fp.Tuple2[int, int]) int { return 100*t.I1 + t.I2 }

// apply computes the operation with the chosen implementation family of the real library
func (w *seqWorld) apply(o SeqOp) fp.Seq[int] {
	in := func(i int) fp.Seq[int] { return w.vers[i-1].s }
	a := in(o.A)
	p, f := seqPred(o.P), seqFn(o.F)
	itr := func() fp.Iterator[int] { return iterator.FromSeq(a) }
	lst := func() fp.List[int] { return list.FromSeq(a) }
	io := ord.Given[int]()
	switch o.Impl {
	case "iterator":
		switch o.Op {
		case "append":
			return itr().Appended(o.X).ToSeq()
		case "prepend":
			return iterator.Concat(o.X, itr()).ToSeq()
		case "concat":
			return itr().Concat(iterator.FromSeq(in(o.B))).ToSeq()
		case "take":
			return itr().Take(o.N).ToSeq()
		case "drop":
			return itr().Drop(o.N).ToSeq()
		case "reverse":
			return iterator.ReverseSeq(a).ToSeq()
		case "filter":
			return itr().Filter(p).ToSeq()
		case "filternot":
			return itr().FilterNot(p).ToSeq()
		case "map":
			return itr().Map(f).ToSeq()
		case "flatmap":
			return itr().FlatMap(func(x int) fp.Iterator[int] { return iterator.Of(x, f(x)) }).ToSeq()
		case "sort":
			return iterator.Sort(itr(), io)
		case "scan":
			return iterator.Scan(itr(), 0, func(b, a int) int { return b + a }).ToSeq()
		case "spanl":
			l, _ := iterator.Span(itr(), p)
			return l.ToSeq()
		case "spanr":
			_, r := iterator.Span(itr(), p)
			return r.ToSeq()
		case "partl":
			l, _ := iterator.Partition(itr(), p)
			return l.ToSeq()
		case "partr":
			_, r := iterator.Partition(itr(), p)
			return r.ToSeq()
		case "zipidx":
			return iterator.Map(iterator.ZipWithIndex(itr()), zipEnc).ToSeq()
		case "min":
			return optSeq(iterator.Min(itr(), io))
		case "max":
			return optSeq(iterator.Max(itr(), io))
		case "sum":
			return fp.Seq[int]{iterator.Fold(itr(), 0, func(b, a int) int { return b + a })}
		case "same":
			return iterator.ToSeq(itr())
		}
	case "list":
		switch o.Op {
		case "prepend":
			return list.Concat(o.X, lst()).ToSeq()
		case "concat":
			return list.Combine(lst(), list.FromSeq(in(o.B))).ToSeq()
		case "tail":
			if len(a) == 0 {
				return fp.Seq[int]{}
			}
			return lst().Tail().ToSeq()
		case "reverse":
			return list.ReverseSeq(a).ToSeq()
		case "map":
			return list.Map(lst(), f).ToSeq()
		case "flatmap":
			return list.FlatMap(lst(), func(x int) fp.List[int] { return list.Of(x, f(x)) }).ToSeq()
		case "filter":
			return list.FilterMap(lst(), func(x int) fp.Option[int] {
				if p(x) {
					return fp.Some(x)
				}
				return fp.None[int]()
			}).ToSeq()
		case "sort":
			return list.Sort(lst(), io)
		case "scan":
			return list.Scan(lst(), 0, func(b, a int) int { return b + a }).ToSeq()
		case "zipidx":
			return list.Map(list.ZipWithIndex(lst()), zipEnc).ToSeq()
		case "min":
			return optSeq(list.Min(lst(), io))
		case "max":
			return optSeq(list.Max(lst(), io))
		case "sum":
			return fp.Seq[int]{list.Fold(lst(), 0, func(b, a int) int { return b + a }) + 0*list.FoldLeft(lst(), 0, func(b, a int) int { return b + a })}
		case "same":
			return list.Collect(iterator.FromSeq(a)).ToSeq()
		}
	}
	// the eager fp.Seq implementation (also the fallback where a family has no such operation)
	switch o.Op {
	case "append":
		if o.N%2 == 0 {
			return a.Append(o.X)
		}
		return a.Add(o.X)
	case "append2":
		return a.Append(o.X, o.N)
	case "append0":
		return a.Append()
	case "prepend":
		return seq.Concat(o.X, a)
	case "concat":
		return a.Concat(in(o.B))
	case "take":
		return a.Take(o.N)
	case "drop":
		return a.Drop(o.N)
	case "tail":
		return a.Tail()
	case "init":
		return a.Init()
	case "reverse":
		return a.Reverse()
	case "filter":
		return a.Filter(p)
	case "filternot":
		return a.FilterNot(p)
	case "map":
		if o.N%2 == 0 {
			return a.Map(f)
		}
		return seq.Map(a, f)
	case "flatmap":
		return a.FlatMap(func(x int) fp.Seq[int] { return fp.Seq[int]{x, f(x)} })
	case "sort":
		return seq.Sort(a, io)
	case "distinct":
		return seq.Distinct(a)
	case "scan":
		return seq.Scan(a, 0, func(b, a int) int { return b + a })
	case "spanl":
		l, _ := seq.Span(a, p)
		return l
	case "spanr":
		_, r := seq.Span(a, p)
		return r
	case "partl":
		l, _ := seq.Partition(a, p)
		return l
	case "partr":
		_, r := seq.Partition(a, p)
		return r
	case "zipidx":
		return seq.Map(seq.ZipWithIndex(a), zipEnc)
	case "min":
		return optSeq(seq.Min(a, io))
	case "max":
		return optSeq(seq.Max(a, io))
	case "sum":
		return fp.Seq[int]{seq.Fold(a, 0, func(b, a int) int { return b + a })}
	case "same":
		return seq.Collect(seq.Iterator(a))
	}
	fatal("c04seq: unknown op", o.Op)
	return nil
}

// consume runs the library functions that return no sequence; they must leave their input alone
func (w *seqWorld) consume(a fp.Seq[int]) {
	seq.GroupBy(a, func(x int) int { return x % 2 })
	iterator.GroupBy(iterator.FromSeq(a), func(x int) int { return x % 2 })
	list.GroupBy(list.FromSeq(a), func(x int) int { return x % 2 })
	seq.ToSet(a, hash.Number[int]())
	seq.ToGoSet(a)
	seq.ToMap(seq.ZipWithIndex(a), hash.Number[int]())
	seq.ToGoMap(seq.ZipWithIndex(a))
	seq.Reduce(a, monoid.Sum[int]())
	seq.FoldMap(a, monoid.Sum[int](), func(x int) int { return x })
	seq.FoldRight(a, 0, func(x int, acc lazy.Eval[int]) lazy.Eval[int] { return acc }).Get()
	seq.FoldTry(a, 0, func(b, x int) fp.Try[int] { return fp.Success(b + x) })
	seq.FoldOption(a, 0, func(b, x int) fp.Option[int] { return fp.Some(b + x) })
	seq.Zip(a, a)
	a.Exists(func(x int) bool { return x > 1000 })
	a.ForAll(func(x int) bool { return x < 1000 })
	a.Find(func(x int) bool { return x > 1000 })
	_ = a.MakeString(",")
	a.Head()
	a.Last()
	a.UnSeq()
}

func (w *seqWorld) live() [][]any {
	res := make([][]any, 0, len(w.vers))
	for i := range w.vers {
		res = append(res, []any{i + 1, w.obs(i)})
	}
	return res
}

func (w *seqWorld) exec(o SeqOp) {
	defer func() {
		if r := recover(); r != nil {
			w.out.Ev("Panic", "op", o.Op, "impl", o.Impl, "v", fmt.Sprint(r))
		}
	}()
	if o.Op == "consume" {
		w.consume(w.vers[o.A-1].s)
		w.out.Ev("Check", "after", "consume", "live", w.live())
		return
	}
	if o.Op == "lit" {
		switch o.How {
		case "spare":
			// a slice with spare capacity: the raw array (with sentinels in the spare part) is an input too
			extra := 1 + w.r.Intn(3)
			base := make([]int, len(o.Lit)+extra)
			copy(base, o.Lit)
			for i := len(o.Lit); i < len(base); i++ {
				base[i] = 90 + i
			}
			full := append([]int(nil), base...)
			w.vers = append(w.vers, seqVer{base: base})
			w.out.Ev("Op", "op", "lit", "impl", "", "a", 0, "b", 0, "n", 0, "x", 0, "p", "", "f", "", "lit", full, "dst", len(w.vers), "obs", w.obs(len(w.vers)-1), "live", w.live())
			w.vers = append(w.vers, seqVer{s: fp.Seq[int](base[:len(o.Lit)])})
		case "sub":
			// a sub-slice in the middle of a larger array
			base := make([]int, len(o.Lit)+4)
			for i := range base {
				base[i] = 80 + i
			}
			copy(base[2:], o.Lit)
			full := append([]int(nil), base...)
			w.vers = append(w.vers, seqVer{base: base})
			w.out.Ev("Op", "op", "lit", "impl", "", "a", 0, "b", 0, "n", 0, "x", 0, "p", "", "f", "", "lit", full, "dst", len(w.vers), "obs", w.obs(len(w.vers)-1), "live", w.live())
			w.vers = append(w.vers, seqVer{s: fp.Seq[int](base[2 : 2+len(o.Lit)])})
		default:
			w.vers = append(w.vers, seqVer{s: seq.Of(o.Lit...)})
		}
	} else {
		w.vers = append(w.vers, seqVer{s: w.apply(o)})
	}
	lit := o.Lit
	if lit == nil {
		lit = []int{}
	}
	w.out.Ev("Op", "op", o.Op, "impl", o.Impl, "a", o.A, "b", o.B, "n", o.N, "x", o.X, "p", o.P, "f", o.F, "lit", lit,
		"dst", len(w.vers), "obs", w.obs(len(w.vers)-1), "live", w.live())
}

var seqOps = []string{"append", "append2", "append0", "prepend", "concat", "take", "drop", "tail", "init", "reverse", "filter", "filternot",
	"map", "flatmap", "sort", "distinct", "scan", "spanl", "spanr", "partl", "partr", "zipidx", "min", "max", "sum", "same"}
var seqPreds = []string{"even", "odd", "lt3", "ge2", "true", "false"}
var seqFns = []string{"inc", "dbl", "neg", "mod3", "id"}

func c04seqRun(out *Out, c SeqCase) int {
	r := rand.New(rand.NewSource(c.Seed))
	w := &seqWorld{out: out, r: r}
	cj, _ := json.Marshal(c)
	out.Ev("Init", "case", string(cj))
	if c.Ops != nil {
		for _, o := range c.Ops {
			w.exec(o)
		}
		return len(c.Ops)
	}
	n := 0
	lit := func() SeqOp {
		l := make([]int, r.Intn(c.MaxLen+1))
		for i := range l {
			l[i] = r.Intn(5) + 1
		}
		return SeqOp{Op: "lit", Lit: l, How: []string{"fresh", "spare", "spare", "sub"}[r.Intn(4)]}
	}
	w.exec(lit())
	impls := []string{"seq", "seq", "iterator", "list"}
	if c.Impls == "seq" {
		impls = []string{"seq"}
	}
	for n < c.Steps {
		n++
		if r.Intn(8) == 0 {
			w.exec(lit())
			continue
		}
		var cand []int
		for i, v := range w.vers {
			if v.base == nil && len(v.s) <= 3*c.MaxLen {
				cand = append(cand, i+1)
			}
		}
		a := cand[r.Intn(len(cand))]
		if r.Intn(10) == 0 {
			w.exec(SeqOp{Op: "consume", A: a})
			continue
		}
		o := SeqOp{Op: seqOps[r.Intn(len(seqOps))], Impl: impls[r.Intn(len(impls))], A: a, B: cand[r.Intn(len(cand))],
			N: r.Intn(c.MaxLen + 2), X: r.Intn(5) + 1, P: seqPreds[r.Intn(len(seqPreds))], F: seqFns[r.Intn(len(seqFns))]}
		w.exec(o)
	}
	return n
}

func cmdC04Seq(args []string) {
	if len(args) != 2 {
		fatal("usage: fpcheck c04seq cases.json out.ndjson")
	}
	var cases []SeqCase
	readJSON(args[0], &cases)
	out := NewOut(args[1])
	defer out.Close()
	sum := Summary{}
	for _, c := range cases {
		c := c
		deadline(out, caseDeadline, func() { sum.Inc("ops", c04seqRun(out, c)) })
		out.tr++
	}
	sum["events"] = out.n
	sum["traces"] = out.tr
	sum.Print()
}

func init() { commands["c04seq"] = cmdC04Seq }
