//go:build verif

package main

import (
	"encoding/json"
	"errors"
	"fmt"
	"math/rand"
	"strings"

	"github.com/csgura/fp"
	"verifharness/sched"
)

// ---- C05: fp.Promise under the cooperative scheduler ----

type C05Thread struct {
	Name string `json:"name"`
	Kind string `json:"kind"`           // reg | comp | obs
	Via  string `json:"via,omitempty"`  // reg: complete|success|failure|foreach ; comp: complete|success|failure
	Nest bool   `json:"nest,omitempty"` // reg: the callback registers a further callback <name>.n when it runs
}

type C05Case struct {
	N0        int         `json:"n0"`
	Zero      string      `json:"zero,omitempty"` // "" | "promise" (zero-value Promise/Future)
	Exec      string      `json:"exec"`           // default | sync | queue
	Threads   []C05Thread `json:"threads"`
	Schedule  []string    `json:"schedule,omitempty"`
	Drain     string      `json:"drain,omitempty"` // fifo | lifo | rand
	Seed      int64       `json:"seed,omitempty"`
	Explore   string      `json:"explore,omitempty"` // "" | dfs | random
	Max       int         `json:"max,omitempty"`
	Preempt   int         `json:"preempt,omitempty"`   // dfs: max preemptions (<0 unbounded)
	TasksFree bool        `json:"tasksfree,omitempty"` // dfs: callback tasks are choice points too
	Origin    string      `json:"origin,omitempty"`
}

var c05Errs = map[string]error{}

func c05Err(name string) error {
	if e, ok := c05Errs[name]; ok {
		return e
	}
	e := errors.New("err-" + name)
	c05Errs[name] = e
	return e
}

type syncExec struct{}

func (syncExec) ExecuteUnsafe(r fp.Runnable) { r.Run() }

type queueExec struct{ s *sched.Sched }

func (q queueExec) ExecuteUnsafe(r fp.Runnable) { q.s.Spawn(r.Run) }

// c05Run executes one concrete schedule; choose picks among runnable threads once the explicit
// schedule is used up.  It returns the arity of every free choice and the choices made.
func c05Run(out *Out, c C05Case, choose func(step int, run []*sched.Thread, last string) (int, int)) (arity []int, picked []string) {
	s := sched.New()
	defer s.Close()
	var p fp.Promise[int]
	if c.Zero == "" {
		p = fp.NewPromise[int]()
	}
	var ctx []fp.Executor
	switch c.Exec {
	case "sync":
		ctx = []fp.Executor{syncExec{}}
	case "queue":
		ctx = []fp.Executor{queueExec{s}}
	}
	cj, _ := json.Marshal(c)
	out.Ev("Init", "zero", c.Zero != "", "case", string(cj))

	compOf := func(t fp.Try[int]) string {
		if t.IsSuccess() {
			return fmt.Sprintf("k%d", t.Get())
		}
		err := t.Failed().Get()
		for n, e := range c05Errs {
			if errors.Is(err, e) {
				return n
			}
		}
		return "?"
	}
	var register func(name, via string, nest bool)
	register = func(name, via string, nest bool) {
		out.Ev("RCall", "c", name, "f", via)
		after := func() {
			if nest {
				register(name+".n", "complete", false)
			}
		}
		switch via {
		case "complete":
			p.Future().OnComplete(func(t fp.Try[int]) { out.Ev("Deliver", "c", name, "w", compOf(t)); after() }, ctx...)
		case "success":
			p.Future().OnSuccess(func(v int) { out.Ev("Deliver", "c", name, "w", compOf(fp.Success(v))); after() }, ctx...)
		case "foreach":
			p.Future().Foreach(func(v int) { out.Ev("Deliver", "c", name, "w", compOf(fp.Success(v))); after() }, ctx...)
		case "failure":
			p.Future().OnFailure(func(e error) { out.Ev("Deliver", "c", name, "w", compOf(fp.Failure[int](e))); after() }, ctx...)
		default:
			fatal("c05: unknown via", via)
		}
		out.Ev("RRet", "c", name)
	}
	// pre-registered callbacks, sequentially, on the unmanaged goroutine (hooks pass through)
	for i := 1; i <= c.N0; i++ {
		register(fmt.Sprintf("p%d", i), "complete", false)
	}
	for _, th := range c.Threads {
		th := th
		switch th.Kind {
		case "reg":
			via := th.Via
			if via == "" {
				via = "complete"
			}
			s.Start(th.Name, func() { register(th.Name, via, th.Nest) })
		case "comp":
			var num int
			fmt.Sscanf(th.Name, "k%d", &num)
			s.Start(th.Name, func() {
				ok := th.Via != "failure"
				out.Ev("CCall", "t", th.Name, "ok", ok)
				var r bool
				switch th.Via {
				case "", "success":
					r = p.Success(num)
				case "complete":
					r = p.Complete(fp.Success(num))
				case "failure":
					r = p.Failure(c05Err(th.Name))
				default:
					fatal("c05: unknown via", th.Via)
				}
				out.Ev("CRet", "t", th.Name, "r", r)
			})
		case "obs":
			s.Start(th.Name, func() {
				d := p.IsCompleted()
				out.Ev("Obs", "t", th.Name, "done", d, "w", "-")
				if d {
					// completion is stable, so reading the value afterwards is an observation of its own
					out.Ev("Obs", "t", th.Name, "done", true, "w", compOf(p.Value()))
					out.Ev("Obs", "t", th.Name, "done", p.Future().IsCompleted(), "w", compOf(p.Future().Value()))
				}
			})
		default:
			fatal("c05: unknown kind", th.Kind)
		}
	}
	steps := 0
	last := ""
	stepOne := func(name string) bool {
		if _, ok := s.Step(name); !ok {
			return false
		}
		picked = append(picked, name)
		last = name
		steps++
		return true
	}
	for _, n := range c.Schedule {
		if n == "task" { // oldest runnable spawned task
			for _, t := range s.Runnable() {
				if strings.HasPrefix(t.Name, "task") {
					n = t.Name
					break
				}
			}
		}
		stepOne(n)
	}
	for steps < 100000 {
		run := s.Runnable()
		if len(run) == 0 {
			break
		}
		k, ar := choose(len(arity), run, last)
		arity = append(arity, ar)
		stepOne(run[k].Name)
	}
	if len(s.Runnable()) > 0 {
		out.Ev("Stuck")
		fatal("c05: execution did not quiesce within the step budget")
	}
	for _, t := range s.All() {
		if t.Panicked {
			out.Ev("Panic", "t", t.Name, "v", fmt.Sprint(t.PanicVal))
		}
	}
	fin := p.IsCompleted()
	w := "-"
	if fin {
		w = compOf(p.Value())
	}
	out.Ev("Quiesce", "done", fin, "w", w, "picked", picked)
	return
}

func c05Drain(c C05Case) func(int, []*sched.Thread, string) (int, int) {
	switch c.Drain {
	case "lifo":
		return func(_ int, run []*sched.Thread, _ string) (int, int) { return len(run) - 1, len(run) }
	case "rand":
		r := rand.New(rand.NewSource(c.Seed))
		return func(_ int, run []*sched.Thread, _ string) (int, int) { return r.Intn(len(run)), len(run) }
	}
	return func(_ int, run []*sched.Thread, _ string) (int, int) { return 0, len(run) }
}

func cmdC05(args []string) {
	if len(args) != 2 {
		fatal("usage: fpcheck c05 cases.json out.ndjson")
	}
	var cases []C05Case
	readJSON(args[0], &cases)
	out := NewOut(args[1])
	defer out.Close()
	sum := Summary{}
	for _, c := range cases {
		switch c.Explore {
		case "":
			c05Run(out, c, c05Drain(c))
			out.tr++
			sum.Inc("executions", 1)
		case "random":
			r := rand.New(rand.NewSource(c.Seed))
			for i := 0; i < c.Max; i++ {
				cc := c
				cc.Explore = ""
				cc.Drain = "rand"
				cc.Seed = r.Int63()
				c05Run(out, cc, c05Drain(cc))
				out.tr++
				sum.Inc("executions", 1)
			}
		case "dfs":
			// stateless re-execution DFS over the scheduler's choices (index into the runnable list)
			var prefix []int
			n := 0
			for {
				cc := c
				cc.Explore = ""
				var chosen []int
				arity, _ := c05Run(out, cc, func(step int, run []*sched.Thread, last string) (int, int) {
					// callback tasks only log: unless TasksFree is set they are not choice points
					// while an API thread is runnable, and run oldest-first afterwards
					var cand []int
					for i, t := range run {
						if c.TasksFree || !strings.HasPrefix(t.Name, "task") {
							cand = append(cand, i)
						}
					}
					if len(cand) == 0 {
						cand = []int{0}
					}
					k := 0
					if step < len(prefix) {
						k = prefix[step]
					}
					chosen = append(chosen, k)
					return cand[k], len(cand)
				})
				out.tr++
				n++
				sum.Inc("executions", 1)
				i := len(arity) - 1
				for ; i >= 0; i-- {
					if chosen[i]+1 < arity[i] {
						prefix = append(append([]int(nil), chosen[:i]...), chosen[i]+1)
						break
					}
				}
				if i < 0 {
					sum.Inc("dfs_complete", 1)
					break
				}
				if c.Max > 0 && n >= c.Max {
					sum.Inc("dfs_capped", 1)
					break
				}
			}
		}
	}
	sum["events"] = out.n
	sum["traces"] = out.tr
	sum.Print()
}

func init() { commands["c05"] = cmdC05 }
