//go:build verif

package main

import (
	"encoding/json"
	"fmt"
	"math/rand"

	"github.com/csgura/fp"
	"verifharness/sched"
)

// ---- C06: future combinator expressions over source promises, every schedule owned by the harness ----

type FutRes struct {
	Ok bool   `json:"ok"`
	V  []int  `json:"v"`
	E  string `json:"e"`
}

type FutCase struct {
	Kind    string   `json:"kind"` // prog | gen
	Prog    *EProg   `json:"prog,omitempty"`
	Res     []FutRes `json:"res"`
	Pre     []int    `json:"pre"`   // sources completed before the expression is built
	Order   []int    `json:"order"` // sources completed by threads (the others never complete)
	Explore string   `json:"explore,omitempty"`
	Level   string   `json:"level,omitempty"` // task | atomic
	Max     int      `json:"max,omitempty"`
	Seed    int64    `json:"seed,omitempty"`
	Count   int      `json:"count,omitempty"`
	Depth   int      `json:"depth,omitempty"`
	Builders int     `json:"builders,omitempty"` // threads that each build the expression (0 = 1)
	Prereg  int      `json:"prereg,omitempty"`   // derived futures built beforehand on the unmanaged goroutine
}

type futRec struct {
	src []fp.Promise[TV]
}

func effContValue(c string, v TV) TV {
	switch c {
	case "kinc":
		return effInc(v)
	case "kdup":
		return cat(v, v)
	}
	return v
}

func futNames(kind string, n int, fin string) []string {
	switch kind {
	case "all":
		switch {
		case n == 1 && fin == "pure":
			return []string{"Map", "Lift", "m.Map", "Method1", "Method2", "FlapMap", "With"}
		case n >= 2 && fin == "pure":
			r := []string{fmt.Sprintf("LiftA%d", n)}
			if n == 2 {
				r = append(r, "Map2", "Ap")
			}
			return r
		case n >= 2 && fin == "mon":
			return []string{fmt.Sprintf("LiftM%d", n)}
		case fin == "none":
			r := []string{"Sequence", "SequenceIterator"}
			if n == 2 {
				r = append(r, "Zip")
			}
			if n == 3 {
				r = append(r, "Zip3")
			}
			return r
		}
	case "chain":
		switch n {
		case 1:
			return []string{"FlatMap", "m.FlatMap", "LiftM", "Flatten", "FlatMethod1", "FlatFlapMap", "TransformWith"}
		case 2:
			return []string{"Compose", "Compose2", "FlatMapFlatMap"}
		case 3, 4, 5:
			return []string{fmt.Sprintf("Compose%d", n)}
		}
	case "trav":
		return []string{"Traverse", "TraverseSeq", "TraverseSlice", "TraverseFunc", "TraverseSeqFunc", "TraverseSliceFunc", "FlatMapTraverseSeq", "FlatMapTraverseSlice"}
	case "foldm":
		return []string{"seq.FoldFuture", "iterator.FoldFuture", "list.FoldFuture"}
	case "supp":
		var r []string
		if n == 2 && fin == "vs" {
			r = append(r, "ApFunc")
		}
		if n >= 1 && n <= 4 {
			r = append(r, fmt.Sprintf("Applicative%d", n), fmt.Sprintf("Chain%d", n))
		}
		return r
	case "rec":
		if fin == "okonly" {
			return []string{"Recover", "RecoverCase", "RecoverWith", "RecoverCaseWith", "Or", "OrFuture"}
		}
		return []string{"RecoverWith", "RecoverCaseWith", "Or", "OrFuture"}
	case "panic":
		if fin == "err" {
			return []string{"Apply2", "Func0", "Func1", "Func2"}
		}
		return []string{"Apply", "Apply2", "Func0", "Func1", "Func2"}
	}
	return nil
}

func futNamesFor(p *EProg) []string {
	switch p.K {
	case "all":
		fin := "none"
		if p.Fin != nil {
			fin = p.Fin.T
		}
		return futNames("all", len(p.Args), fin)
	case "chain":
		return futNames("chain", len(p.Ks), "")
	case "trav", "foldm":
		return futNames(p.K, 0, "")
	case "supp":
		pat := ""
		for _, s := range p.Steps {
			pat += s.T[:1]
		}
		return futNames("supp", len(p.Steps), pat)
	case "rec":
		fin := ""
		for _, c := range effOkConts {
			if p.Kk != nil && p.Kk.C == c {
				fin = "okonly"
			}
		}
		return futNames("rec", 0, fin)
	case "panic":
		return futNames("panic", 0, p.Mode)
	}
	return []string{""}
}

func assignFutNames(r *rand.Rand, p *EProg) bool {
	if p == nil {
		return true
	}
	names := futNamesFor(p)
	if len(names) == 0 {
		return false
	}
	if p.Name == "" {
		p.Name = names[r.Intn(len(names))]
	}
	for _, a := range p.Args {
		if !assignFutNames(r, a) {
			return false
		}
	}
	if !assignFutNames(r, p.Arg) {
		return false
	}
	for _, s := range p.Steps {
		if !assignFutNames(r, s.P) {
			return false
		}
	}
	return true
}

func randFut(r *rand.Rand, nsrc, depth int) *EProg {
	leaf := func() *EProg {
		switch r.Intn(5) {
		case 0:
			return &EProg{K: "fail", E: []string{"e1", "e4"}[r.Intn(2)]}
		case 1:
			return &EProg{K: "unit", V: []int{r.Intn(5)}}
		default:
			return &EProg{K: "src", Id: 1 + r.Intn(nsrc)}
		}
	}
	if depth <= 0 {
		return leaf()
	}
	sub := func() *EProg { return randFut(r, nsrc, depth-1) }
	conts := append([]string{"ksrc"}, effConts...)
	for {
		var p *EProg
		switch r.Intn(8) {
		case 0, 1:
			n := 1 + r.Intn(4)
			if r.Intn(6) == 0 {
				n = 5 + r.Intn(5)
			}
			p = &EProg{K: "all"}
			for i := 0; i < n; i++ {
				p.Args = append(p.Args, sub())
			}
			switch r.Intn(3) {
			case 0:
				p.Fin = &EFin{T: "pure"}
			case 1:
				if n >= 2 {
					p.Fin = &EFin{T: "mon", C: conts[r.Intn(len(conts))]}
				} else {
					p.Fin = &EFin{T: "pure"}
				}
			default:
				if n > 5 {
					p.Args = p.Args[:5]
				}
				p.Fin = &EFin{T: "none"}
			}
		case 2, 3:
			p = &EProg{K: "chain", Arg: sub()}
			for i, n := 0, 1+r.Intn(4); i < n; i++ {
				p.Ks = append(p.Ks, EK{C: conts[r.Intn(len(conts))]})
			}
		case 4:
			p = &EProg{K: []string{"trav", "foldm"}[r.Intn(2)], Kk: &EK{C: conts[r.Intn(len(conts))]}}
			for i, n := 0, r.Intn(4); i < n; i++ {
				p.Xs = append(p.Xs, r.Intn(6))
			}
		case 5:
			p = &EProg{K: "supp"}
			n := 1 + r.Intn(3)
			for i := 0; i < n; i++ {
				st := EStep{T: []string{"val", "sup", "pure", "func"}[r.Intn(4)], P: sub()}
				if st.T == "pure" || st.T == "func" {
					st.P = &EProg{K: "unit", V: []int{r.Intn(5)}}
				}
				p.Steps = append(p.Steps, st)
			}
			if n == 2 && r.Intn(2) == 0 {
				p.Steps[0].T, p.Steps[1].T = "val", "sup"
			}
		case 6:
			p = &EProg{K: "rec", Arg: sub(), Kk: &EK{C: conts[r.Intn(len(conts))]}}
		default:
			p = &EProg{K: "panic", Mode: []string{"panic", "ok", "err"}[r.Intn(3)], Pv: []string{"s:boom", "i:7", "e:errval"}[r.Intn(3)]}
		}
		if assignFutNames(r, p) {
			return p
		}
	}
}

func (p *EProg) tlaFut() map[string]any {
	m := p.tla()
	if m == nil {
		return nil
	}
	// tla() already recurses with tla(); patch nothing else: "src" nodes carry their index in id
	return m
}

// one execution under the scheduler; ch picks the next thread
func c06Run(out *Out, c FutCase, ch sched.Chooser) {
	s := sched.New()
	defer s.Close()
	rec := &futRec{}
	for range c.Res {
		rec.src = append(rec.src, fp.NewPromise[TV]())
	}
	complete := func(i int) {
		r := c.Res[i-1]
		if r.Ok {
			rec.src[i-1].Success(tv(r.V))
		} else {
			rec.src[i-1].Failure(effErr(r.E))
		}
	}
	res := []any{}
	for _, r := range c.Res {
		e := r.E
		if r.Ok {
			e = "-"
		}
		res = append(res, map[string]any{"ok": r.Ok, "v": tv(r.V), "e": e})
	}
	cj, _ := json.Marshal(c)
	pre := c.Pre
	if pre == nil {
		pre = []int{}
	}
	out.Ev("Init", "prog", c.Prog.tlaFut(), "res", res, "pre", pre, "case", string(cj))
	for _, i := range c.Pre {
		complete(i)
	}
	nb := c.Builders
	if nb == 0 {
		nb = 1
	}
	derived := make([]fp.Future[TV], c.Prereg+nb)
	built := make([]bool, c.Prereg+nb)
	var buildPanic any
	for j := 0; j < c.Prereg; j++ {
		derived[j] = rec.buildFuture(c.Prog)
		built[j] = true
	}
	for j := 0; j < nb; j++ {
		j := j
		name := "build"
		if j > 0 {
			name = fmt.Sprintf("build%d", j+1)
		}
		s.Start(name, func() {
			defer func() {
				if r := recover(); r != nil {
					buildPanic = r
				}
			}()
			derived[c.Prereg+j] = rec.buildFuture(c.Prog)
			built[c.Prereg+j] = true
		})
	}
	for _, i := range c.Order {
		i := i
		s.Start(fmt.Sprintf("c%d", i), func() {
			// logged before the call: from here on the source may be observed complete
			out.Ev("Done", "i", i)
			complete(i)
		})
	}
	// c: every derived future is complete; any: at least one is (its value is reported)
	observe := func(e string) {
		all, anyc := true, false
		var first fp.Try[TV]
		mismatch := false
		for j := range derived {
			if !built[j] || !derived[j].IsCompleted() {
				all = false
				continue
			}
			t := derived[j].Value()
			if !anyc {
				first, anyc = t, true
			} else if t.IsSuccess() != first.IsSuccess() || (t.IsSuccess() && fmt.Sprint(t.Get()) != fmt.Sprint(first.Get())) ||
				(!t.IsSuccess() && effErrName(t.Failed().Get()) != effErrName(first.Failed().Get())) {
				mismatch = true
			}
		}
		if mismatch {
			out.Ev("Mismatch")
		}
		if !anyc {
			out.Ev(e, "c", false, "any", false, "ok", false, "v", []int{}, "err", "-")
			return
		}
		if first.IsSuccess() {
			out.Ev(e, "c", all, "any", true, "ok", true, "v", tv(first.Get()), "err", "-")
		} else {
			out.Ev(e, "c", all, "any", true, "ok", false, "v", []int{}, "err", effErrName(first.Failed().Get()))
		}
	}
	var picked []string
	for steps := 0; steps < 20000; steps++ {
		run := s.Runnable()
		if len(run) == 0 {
			break
		}
		t := run[ch(run)]
		if c.Level == "atomic" {
			s.Step(t.Name)
		} else {
			s.Finish(t.Name, 100000)
		}
		picked = append(picked, t.Name)
		observe("Obs")
	}
	if len(s.Runnable()) > 0 {
		fatal("c06: execution did not quiesce")
	}
	for _, t := range s.All() {
		if t.Panicked {
			out.Ev("Panic", "t", t.Name, "v", fmt.Sprint(t.PanicVal))
		}
	}
	if buildPanic != nil {
		out.Ev("Panic", "t", "build", "v", fmt.Sprint(buildPanic))
	}
	observe("End")
	_ = picked
}

func c06Explore(out *Out, c FutCase, sum Summary) {
	switch c.Explore {
	case "dfs":
		n, complete := sched.DFS(c.Max, nil, func(ch sched.Chooser) {
			c06Run(out, c, ch)
			out.tr++
		})
		sum.Inc("executions", n)
		if complete {
			sum.Inc("dfs_complete", 1)
		} else {
			sum.Inc("dfs_capped", 1)
		}
	default:
		r := rand.New(rand.NewSource(c.Seed))
		n := c.Max
		if n == 0 {
			n = 1
		}
		for i := 0; i < n; i++ {
			c06Run(out, c, sched.Random(r.Int63()))
			out.tr++
			sum.Inc("executions", 1)
		}
	}
}

func cmdC06(args []string) {
	if len(args) != 2 {
		fatal("usage: fpcheck c06 cases.json out.ndjson")
	}
	var cases []FutCase
	readJSON(args[0], &cases)
	out := NewOut(args[1])
	defer out.Close()
	sum := Summary{}
	for _, c := range cases {
		if c.Kind == "gen" {
			r := rand.New(rand.NewSource(c.Seed))
			for i := 0; i < c.Count; i++ {
				nsrc := 1 + r.Intn(3)
				cc := FutCase{Kind: "prog", Prog: randFut(r, nsrc, 1+r.Intn(c.Depth)), Explore: c.Explore, Level: c.Level, Max: c.Max, Seed: r.Int63()}
				for j := 0; j < nsrc; j++ {
					if r.Intn(3) == 0 {
						cc.Res = append(cc.Res, FutRes{Ok: false, E: fmt.Sprintf("e%d", 5+j)})
					} else {
						cc.Res = append(cc.Res, FutRes{Ok: true, V: []int{10 + j}})
					}
					switch r.Intn(4) {
					case 0:
						cc.Pre = append(cc.Pre, j+1)
					case 1:
						if r.Intn(2) == 0 {
							break // never completed
						}
						fallthrough
					default:
						cc.Order = append(cc.Order, j+1)
					}
				}
				c06Explore(out, cc, sum)
				sum.Inc("programs", 1)
			}
			continue
		}
		if c.Prog.Name == "" {
			r := rand.New(rand.NewSource(c.Seed))
			names := futNamesFor(c.Prog)
			for _, nm := range names {
				var q EProg
				b, _ := json.Marshal(c.Prog)
				json.Unmarshal(b, &q)
				q.Name = nm
				if !assignFutNames(r, &q) {
					continue
				}
				cc := c
				cc.Prog = &q
				c06Explore(out, cc, sum)
				sum.Inc("programs", 1)
			}
			continue
		}
		c06Explore(out, c, sum)
		sum.Inc("programs", 1)
	}
	sum["events"] = out.n
	sum["traces"] = out.tr
	sum.Print()
}

func init() { commands["c06"] = cmdC06 }
