//go:build verif

package main

import (
	"bytes"
	"encoding/json"
	"fmt"
	"math/rand"
	"reflect"
	"strconv"
	"strings"
	"unicode/utf8"
	"unsafe"

	"github.com/csgura/fp"
)

// ---- C15: JSON encoding of fp.Option / fp.Unit and containers around them ----
//
// Every Go type of c15Types is mapped to a type expression of Json.tla, every value to an abstract value and every emitted
// byte string - parsed by a separate token walk - to an abstract JSON value; TLC computes Enc / Dec / Faithful itself.

type c15Obj1 struct {
	A fp.Option[int64] `json:"a"`
	B string           `json:"b,omitempty"`
}

type c15Obj2 struct {
	P *fp.Option[string]  `json:"p,omitempty"`
	L []fp.Option[int64]  `json:"l,omitempty"`
	O fp.Option[c15Obj1]  `json:"o"`
	U fp.Unit             `json:"u"`
	N fp.Option[[]string] `json:"n,omitempty"`
}

var c15Types = []any{
	int64(0), "", fp.Unit{},
	fp.Option[int64]{}, fp.Option[string]{}, fp.Option[fp.Unit]{}, fp.Option[uint64]{},
	fp.Option[fp.Option[int64]]{}, fp.Option[fp.Option[fp.Option[string]]]{},
	fp.Option[*int64]{}, (*fp.Option[int64])(nil), (**fp.Option[string])(nil),
	fp.Option[[]int64]{}, []fp.Option[string]{}, fp.Option[[]fp.Option[int64]]{}, [][]fp.Option[int64]{},
	[]fp.Unit{}, fp.Option[[]fp.Unit]{},
	c15Obj1{}, fp.Option[c15Obj1]{}, []c15Obj1{}, c15Obj2{}, fp.Option[c15Obj2]{}, fp.Option[*c15Obj1]{},
}

func c15IsOption(t reflect.Type) bool {
	return t.Kind() == reflect.Struct && t.PkgPath() == "github.com/csgura/fp" && strings.HasPrefix(t.Name(), "Option[")
}

func c15IsUnit(t reflect.Type) bool {
	return t.Kind() == reflect.Struct && t.PkgPath() == "github.com/csgura/fp" && t.Name() == "Unit"
}

func c15Ty(t reflect.Type) Ev {
	switch {
	case c15IsUnit(t):
		return Ev{"t": "unit"}
	case c15IsOption(t):
		return Ev{"t": "opt", "of": c15Ty(t.Field(1).Type)}
	}
	switch t.Kind() {
	case reflect.Int64, reflect.Uint64, reflect.Int:
		return Ev{"t": "int"}
	case reflect.String:
		return Ev{"t": "str"}
	case reflect.Pointer:
		return Ev{"t": "ptr", "of": c15Ty(t.Elem())}
	case reflect.Slice:
		return Ev{"t": "list", "of": c15Ty(t.Elem())}
	case reflect.Struct:
		fs := []Ev{}
		for i := 0; i < t.NumField(); i++ {
			tag := strings.Split(t.Field(i).Tag.Get("json"), ",")
			fs = append(fs, Ev{"n": tag[0], "ty": c15Ty(t.Field(i).Type), "omit": len(tag) > 1 && tag[1] == "omitempty"})
		}
		return Ev{"t": "obj", "fs": fs}
	}
	panic("c15: unsupported type " + t.String())
}

func c15Field(v reflect.Value, i int) reflect.Value {
	if !v.CanAddr() {
		c := reflect.New(v.Type()).Elem()
		c.Set(v)
		v = c
	}
	f := v.Field(i)
	return reflect.NewAt(f.Type(), unsafe.Pointer(f.UnsafeAddr())).Elem()
}

// the abstract value; library values are read through their public API (IsDefined / Get)
func c15Val(v reflect.Value) Ev {
	t := v.Type()
	switch {
	case c15IsUnit(t):
		return Ev{"v": "unit"}
	case c15IsOption(t):
		if !v.MethodByName("IsDefined").Call(nil)[0].Bool() {
			return Ev{"v": "none"}
		}
		return Ev{"v": "some", "x": c15Val(v.MethodByName("Get").Call(nil)[0])}
	}
	switch t.Kind() {
	case reflect.Int64, reflect.Int:
		return Ev{"v": "num", "n": strconv.FormatInt(v.Int(), 10)}
	case reflect.Uint64:
		return Ev{"v": "num", "n": strconv.FormatUint(v.Uint(), 10)}
	case reflect.String:
		return Ev{"v": "str", "s": v.String()}
	case reflect.Pointer:
		if v.IsNil() {
			return Ev{"v": "nil"}
		}
		return Ev{"v": "ptr", "x": c15Val(v.Elem())}
	case reflect.Slice:
		if v.IsNil() {
			return Ev{"v": "nil"}
		}
		xs := []Ev{}
		for i := 0; i < v.Len(); i++ {
			xs = append(xs, c15Val(v.Index(i)))
		}
		return Ev{"v": "list", "xs": xs}
	case reflect.Struct:
		fs := []Ev{}
		for i := 0; i < t.NumField(); i++ {
			fs = append(fs, c15Val(v.Field(i)))
		}
		return Ev{"v": "obj", "fs": fs}
	}
	panic("c15: unsupported value " + t.String())
}

var c15Strings = []string{"", "a", "he\"llo", "line\nbreak\ttab", "<&>", "ünï✓", "\\", "null", " ", "0", "{}", " ", "\x01\x1f", "emoji😀"}
var c15Ints = []int64{0, 1, -1, 42, 9223372036854775807, -9223372036854775808, 9007199254740993, -9007199254740993, 2147483648}

func c15Rand(r *rand.Rand, t reflect.Type, depth int) reflect.Value {
	v := reflect.New(t).Elem()
	switch {
	case c15IsUnit(t):
		return v
	case c15IsOption(t):
		if r.Intn(3) == 0 {
			return v
		}
		inner := c15Rand(r, t.Field(1).Type, depth+1)
		// what fp.Some builds: present = true, v = inner
		c15Field(v, 1).Set(inner)
		c15Field(v, 0).SetBool(true)
		return v
	}
	switch t.Kind() {
	case reflect.Int64, reflect.Int:
		v.SetInt(c15Ints[r.Intn(len(c15Ints))])
	case reflect.Uint64:
		v.SetUint([]uint64{0, 1, 18446744073709551615, 9223372036854775808}[r.Intn(4)])
	case reflect.String:
		v.SetString(c15Strings[r.Intn(len(c15Strings))])
	case reflect.Pointer:
		if r.Intn(3) > 0 {
			p := reflect.New(t.Elem())
			p.Elem().Set(c15Rand(r, t.Elem(), depth+1))
			v.Set(p)
		}
	case reflect.Slice:
		switch n := r.Intn(4); {
		case n == 0:
		case depth > 3:
			v.Set(reflect.MakeSlice(t, 0, 0))
		default:
			s := reflect.MakeSlice(t, n-1, n+1)
			for i := 0; i < n-1; i++ {
				s.Index(i).Set(c15Rand(r, t.Elem(), depth+1))
			}
			v.Set(s)
		}
	case reflect.Struct:
		for i := 0; i < t.NumField(); i++ {
			v.Field(i).Set(c15Rand(r, t.Field(i).Type, depth+1))
		}
	}
	return v
}

// abstract JSON by a token walk (member order kept, numbers as digit strings); nil if the bytes are not one JSON value
func c15JSON(b []byte) (res Ev) {
	defer func() {
		if recover() != nil {
			res = nil
		}
	}()
	dec := json.NewDecoder(bytes.NewReader(b))
	dec.UseNumber()
	var walk func() Ev
	walk = func() Ev {
		tok, err := dec.Token()
		if err != nil {
			panic(err)
		}
		switch x := tok.(type) {
		case nil:
			return Ev{"j": "null"}
		case json.Number:
			return Ev{"j": "num", "n": x.String()}
		case string:
			return Ev{"j": "str", "s": x}
		case bool:
			return Ev{"j": "bool", "b": x}
		case json.Delim:
			if x == '[' {
				a := []Ev{}
				for dec.More() {
					a = append(a, walk())
				}
				dec.Token()
				return Ev{"j": "arr", "a": a}
			}
			o := []Ev{}
			for dec.More() {
				k, _ := dec.Token()
				o = append(o, Ev{"k": k.(string), "x": walk()})
			}
			dec.Token()
			return Ev{"j": "obj", "o": o}
		}
		panic("token")
	}
	r := walk()
	if _, err := dec.Token(); err == nil {
		return nil
	}
	return r
}

func c15Mutate(r *rand.Rand, valid []byte, pool [][]byte) []byte {
	switch r.Intn(9) {
	case 0: // random bytes
		b := make([]byte, r.Intn(12))
		for i := range b {
			b[i] = byte(r.Intn(256))
		}
		return b
	case 1: // truncation
		if len(valid) > 0 {
			return valid[:r.Intn(len(valid))]
		}
	case 2: // a valid document of another type
		return pool[r.Intn(len(pool))]
	case 3: // one byte replaced by a structural character
		if len(valid) > 0 {
			b := append([]byte{}, valid...)
			b[r.Intn(len(b))] = "{}[],:\"n0 t-\\"[r.Intn(13)]
			return b
		}
	case 4: // type confusion late in the document: the last scalar becomes another kind
		s := string(valid)
		for _, pat := range []string{"]", "}"} {
			if i := strings.LastIndex(s, pat); i > 0 {
				return []byte(s[:i] + []string{",\"x\"", ",1.5", ",{}", ",[1]", ",true"}[r.Intn(5)] + s[i:])
			}
		}
		return []byte(`"` + s + `"`)
	case 5:
		return []byte([]string{"", " ", "n", "nul", "nulL", "null ", " null", "none", "true", "false", "1e999", "-", "1.5", "\"", "[", "{", "{\"a\":", "[null", "NaN"}[r.Intn(19)])
	case 6: // deep nesting
		return []byte(strings.Repeat("[", 1+r.Intn(200)) + strings.Repeat("]", r.Intn(200)))
	case 7: // wrap
		return []byte("[" + string(valid) + "]")
	}
	return []byte("{" + string(valid) + "}")
}

func cmdC15(args []string) {
	if len(args) < 2 {
		fatal("usage: fpcheck c15 cases.json out.ndjson")
	}
	var cfg struct {
		Seed  int64 `json:"seed"`
		Iters int   `json:"iters"`
		Fuzz  int   `json:"fuzz"`
		Only  *struct {
			Type  int    `json:"type"`
			Input string `json:"input"`
		} `json:"only"`
	}
	readJSON(args[0], &cfg)
	out := NewOut(args[1])
	defer out.Close()
	r := rand.New(rand.NewSource(cfg.Seed))
	sum := Summary{}
	var pool [][]byte
	for _, z := range c15Types {
		t := reflect.TypeOf(z)
		for i := 0; i < 6; i++ {
			if b, err := json.Marshal(c15Rand(r, t, 0).Interface()); err == nil {
				pool = append(pool, b)
			}
		}
	}
	for ti, z := range c15Types {
		t := reflect.TypeOf(z)
		ty := c15Ty(t)
		for it := 0; it < cfg.Iters; it++ {
			x := c15Rand(r, t, 0)
			func() {
				var b []byte
				var merr, uerr error
				back := reflect.New(t)
				panicked := ""
				func() {
					defer func() {
						if p := recover(); p != nil {
							panicked = fmt.Sprint(p)
						}
					}()
					b, merr = json.Marshal(x.Interface())
					if merr == nil {
						uerr = json.Unmarshal(b, back.Interface())
					}
				}()
				js := c15JSON(b)
				if js == nil || !utf8.Valid(b) {
					js = Ev{"j": "invalid"}
				}
				out.Ev("RT", "ti", ti, "gotype", t.String(), "ty", ty, "x", c15Val(x), "bytes", string(b), "js", js,
					"merr", merr != nil, "uerr", uerr != nil, "back", c15Val(back.Elem()), "panicked", panicked)
				out.tr++
				sum.Inc("roundtrips", 1)
			}()
			// decoder robustness: a pre-filled target and hostile input
			for f := 0; f < cfg.Fuzz; f++ {
				valid, _ := json.Marshal(c15Rand(r, t, 0).Interface())
				in := c15Mutate(r, valid, pool)
				target := reflect.New(t)
				target.Elem().Set(c15Rand(r, t, 0))
				before := c15Val(target.Elem())
				direct := r.Intn(4) == 0
				var err error
				panicked := ""
				func() {
					defer func() {
						if p := recover(); p != nil {
							panicked = fmt.Sprint(p)
						}
					}()
					if u, ok := target.Interface().(json.Unmarshaler); ok && direct {
						err = u.UnmarshalJSON(in)
					} else {
						direct = false
						err = json.Unmarshal(in, target.Interface())
					}
				}()
				out.Ev("Fuzz", "ti", ti, "gotype", t.String(), "input", strconv.Quote(string(in)), "direct", direct, "err", err != nil, "own", c15IsOption(t) || c15IsUnit(t),
					"before", before, "after", c15Val(target.Elem()), "panicked", panicked)
				out.tr++
				sum.Inc("fuzz", 1)
				if err != nil {
					sum.Inc("fuzz_errors", 1)
				}
			}
		}
	}
	sum["types"] = len(c15Types)
	sum["events"] = out.n
	sum["traces"] = out.tr
	sum.Print()
}

func init() { commands["c15"] = cmdC15 }
