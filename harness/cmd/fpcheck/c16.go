//go:build verif

package main

import (
	"encoding/json"
	"math/rand"
	"runtime"
	"sync"
	"sync/atomic"
	"time"

	"github.com/csgura/fp"
	"github.com/csgura/fp/lazy"
	"github.com/csgura/fp/list"
)

// ---- C16: lazy.Eval programs against EvalSpec.tla ----

type EvalProg struct {
	K  string    `json:"k"`
	V  int       `json:"v"`
	Id int       `json:"id"`
	F  string    `json:"f"`
	C  string    `json:"c"`
	E  *EvalProg `json:"e,omitempty"`
	A  *EvalProg `json:"a,omitempty"`
	B  *EvalProg `json:"b,omitempty"`
}

type C16Case struct {
	Kind  string    `json:"kind"` // prog | chain | conc
	Prog  *EvalProg `json:"prog,omitempty"`
	Gets  int       `json:"gets,omitempty"`
	N     int       `json:"n,omitempty"`
	Shape string    `json:"shape,omitempty"`
	What  string    `json:"what,omitempty"`
	Seed  int64     `json:"seed,omitempty"`
	Count int       `json:"count,omitempty"`
	Depth int       `json:"depth,omitempty"`
}

func evalFn(f string) func(int) int {
	switch f {
	case "inc":
		return func(x int) int { return x + 1 }
	case "dbl":
		return func(x int) int { return 2 * x }
	case "dec":
		return func(x int) int { return x - 1 }
	}
	return func(x int) int { return x }
}

func stackDepth() int {
	var pcs [512]uintptr
	return runtime.Callers(0, pcs[:])
}

type evalWorld struct {
	out *Out
}

func mod3(v int) int { return ((v % 3) + 3) % 3 }

func (w *evalWorld) cont(c string) func(int) lazy.Eval[int] {
	return func(v int) lazy.Eval[int] {
		switch c {
		case "kdone":
			return lazy.Done(v + 10)
		case "kcall":
			return w.build(&EvalProg{K: "call", Id: 90 + mod3(v), V: v * 3})
		case "ktail":
			return w.build(&EvalProg{K: "tail", Id: 95 + mod3(v), E: &EvalProg{K: "done", V: v - 7}})
		case "kmap":
			return lazy.Done(v).Map(evalFn("dbl"))
		}
		return lazy.Done(v)
	}
}

func (w *evalWorld) build(p *EvalProg) lazy.Eval[int] {
	switch p.K {
	case "done":
		return lazy.Done(p.V)
	case "call":
		return lazy.Call(func() int {
			w.out.Ev("Exec", "id", p.Id, "depth", stackDepth())
			return p.V
		})
	case "tail":
		return lazy.TailCall(func() lazy.Eval[int] {
			w.out.Ev("Exec", "id", p.Id, "depth", stackDepth())
			return w.build(p.E)
		})
	case "map":
		if p.V%2 == 0 {
			return w.build(p.E).Map(evalFn(p.F))
		}
		return lazy.Map(w.build(p.E), evalFn(p.F))
	case "fm":
		if p.V%2 == 0 {
			return w.build(p.E).FlatMap(w.cont(p.C))
		}
		return lazy.FlatMap(w.build(p.E), w.cont(p.C))
	case "map2":
		return lazy.Map2(w.build(p.A), w.build(p.B), func(a, b int) int { return a + b })
	}
	fatal("c16: unknown node", p.K)
	return lazy.Done(0)
}

func randProg(r *rand.Rand, depth int, id *int) *EvalProg {
	if depth <= 0 || r.Intn(5) == 0 {
		switch r.Intn(3) {
		case 0:
			return &EvalProg{K: "done", V: r.Intn(9)}
		case 1:
			*id++
			my := *id
			return &EvalProg{K: "call", Id: my, V: r.Intn(9)}
		default:
			*id++
			my := *id
			return &EvalProg{K: "tail", Id: my, E: randProg(r, depth-1, id)}
		}
	}
	switch r.Intn(5) {
	case 0:
		return &EvalProg{K: "map", V: r.Intn(2), F: []string{"inc", "dbl", "dec"}[r.Intn(3)], E: randProg(r, depth-1, id)}
	case 1, 2:
		return &EvalProg{K: "fm", V: r.Intn(2), C: []string{"kdone", "kcall", "ktail", "kmap", "kid"}[r.Intn(5)], E: randProg(r, depth-1, id)}
	case 3:
		return &EvalProg{K: "map2", A: randProg(r, depth-1, id), B: randProg(r, depth-1, id)}
	default:
		*id++
		my := *id
		return &EvalProg{K: "tail", Id: my, E: randProg(r, depth-1, id)}
	}
}

// normalise fills the fields TLA+ reads on every node kind
func (p *EvalProg) tla() map[string]any {
	m := map[string]any{"k": p.K, "v": p.V, "id": p.Id, "f": p.F, "c": p.C}
	if p.E != nil {
		m["e"] = p.E.tla()
	}
	if p.A != nil {
		m["a"] = p.A.tla()
	}
	if p.B != nil {
		m["b"] = p.B.tla()
	}
	return m
}

// renumber gives every deferred computation of the program its own id (ids are labels only)
func (p *EvalProg) renumber(next *int) {
	if p == nil {
		return
	}
	if p.K == "call" || p.K == "tail" {
		*next++
		p.Id = *next
	}
	p.E.renumber(next)
	p.A.renumber(next)
	p.B.renumber(next)
}

func c16Prog(out *Out, c C16Case) {
	w := &evalWorld{out: out}
	if c.Shape == "renumber" {
		n := 0
		c.Prog.renumber(&n)
	}
	cj, _ := json.Marshal(c)
	out.Ev("Init", "prog", c.Prog.tla(), "case", string(cj))
	func() {
		defer func() {
			if r := recover(); r != nil {
				out.Ev("Panic", "v", "panic")
			}
		}()
		e := w.build(c.Prog)
		for i := 0; i < c.Gets; i++ {
			var v int
			if i%2 == 0 {
				v = e.Get()
			} else {
				v = lazy.Run(e)
			}
			out.Ev("Result", "v", v)
		}
	}()
	out.Ev("End")
}

// tail-recursive programs: only a summary is logged (the chain is up to 2*10^7 thunks long)
func c16Chain(out *Out, c C16Case) {
	cj, _ := json.Marshal(c)
	out.Ev("Init", "prog", (&EvalProg{K: "done"}).tla(), "case", string(cj))
	minD, maxD, execs := 1<<30, 0, 0
	probe := func() {
		execs++
		if execs < 64 || execs%4099 == 0 || execs > c.N-64 {
			d := stackDepth()
			if d < minD {
				minD = d
			}
			if d > maxD {
				maxD = d
			}
		}
	}
	var count func(n, acc int) lazy.Eval[int]
	count = func(n, acc int) lazy.Eval[int] {
		if n == 0 {
			return lazy.Done(acc)
		}
		switch c.Shape {
		case "tailcall2":
			return lazy.TailCall2(func(a, b int) lazy.Eval[int] { probe(); return count(a, b) }, n-1, acc+1)
		default:
			return lazy.TailCall(func() lazy.Eval[int] { probe(); return count(n-1, acc+1) })
		}
	}
	var isEven, isOdd func(n int) lazy.Eval[int]
	isEven = func(n int) lazy.Eval[int] {
		if n == 0 {
			return lazy.Done(1)
		}
		return lazy.TailCall1(func(m int) lazy.Eval[int] { probe(); return isOdd(m) }, n-1)
	}
	isOdd = func(n int) lazy.Eval[int] {
		if n == 0 {
			return lazy.Done(0)
		}
		return lazy.TailCall1(func(m int) lazy.Eval[int] { probe(); return isEven(m) }, n-1)
	}
	var res, want int
	func() {
		defer func() {
			if r := recover(); r != nil {
				res = -1
			}
		}()
		switch c.Shape {
		case "mapped":
			res = count(c.N, 0).Map(func(x int) int { return x + 1 }).Map(func(x int) int { return x + 1 }).Get()
			want = c.N + 2
		case "flatmapped":
			res = count(c.N, 0).FlatMap(func(x int) lazy.Eval[int] { return count(10, x) }).Get()
			want = c.N + 10
		case "evenodd":
			res = isEven(c.N).Get()
			want = 1 - c.N%2
		case "foldright":
			// a fold whose step function returns the lazy tail untouched ("last"): tail position, so the stack must not grow
			xs := make([]int, c.N)
			res = list.FoldRight(list.Of(xs...), 7, func(a int, b lazy.Eval[int]) lazy.Eval[int] { probe(); return b }).Get()
			want = 7
		default:
			res = count(c.N, 0).Get()
			want = c.N
		}
	}()
	out.Ev("Chain", "n", c.N, "shape", c.Shape, "result", res, "want", want, "execs", execs, "mind", minD, "maxd", maxD)
	out.Ev("End")
}

// one Eval extended twice: the two extensions are independent values (a continuation queue shared between them would make
// the first one run the second one's function)
func c16Share(out *Out, c C16Case) {
	cj, _ := json.Marshal(c)
	out.Ev("Init", "prog", (&EvalProg{K: "done"}).tla(), "case", string(cj))
	var base lazy.Eval[int]
	switch c.Shape {
	case "call":
		base = lazy.Call(func() int { return 5 })
	case "tail":
		base = lazy.TailCall(func() lazy.Eval[int] { return lazy.Done(5) })
	default:
		base = lazy.Done(5)
	}
	for i := 0; i < c.N; i++ {
		if i%2 == 0 {
			base = base.Map(func(x int) int { return x + 1 })
		} else {
			base = base.FlatMap(func(x int) lazy.Eval[int] { return lazy.Done(x + 1) })
		}
	}
	x := base.Map(func(v int) int { return v + 100 })
	y := base.FlatMap(func(v int) lazy.Eval[int] { return lazy.Done(v + 1000) })
	z := base.Map(func(v int) int { return v + 10000 })
	rz, ry, rx := z.Get(), y.Get(), x.Get()
	out.Ev("Share", "k", c.N, "shape", c.Shape, "rx", rx, "ry", ry, "rz", rz)
	out.Ev("End")
}

// a deferred computation that panics: the caller recovers and asks again - the computation has run once, not twice
func c16PanicOnce(out *Out, c C16Case) {
	cj, _ := json.Marshal(c)
	out.Ev("Init", "prog", (&EvalProg{K: "done"}).tla(), "case", string(cj))
	execs := 0
	body := func() int {
		execs++
		panic("boom")
	}
	var get func() int
	switch c.What {
	case "lazy.Call":
		get = lazy.Call(body).Get
	case "lazy.TailCall":
		get = lazy.TailCall(func() lazy.Eval[int] { return lazy.Done(body()) }).Get
	case "lazy.Memoize":
		get = lazy.Memoize(body)
	case "fp.Memoize":
		m := fp.Memoize(body)
		get = func() int { return m(fp.Unit{}) }
	case "lazy.Func1":
		get = lazy.Func1(func(a int) int { return body() + a })(1).Get
	case "lazy.Call.Map":
		get = lazy.Call(body).Map(func(x int) int { return x + 1 }).Get
	default:
		fatal("c16: unknown panic target", c.What)
	}
	try := func() {
		defer func() { _ = recover() }()
		get()
	}
	try()
	try()
	try()
	out.Ev("PanicOnce", "what", c.What, "execs", execs)
	out.Ev("End")
}

// concurrent getters on one deferred computation: A is held inside the thunk while the others call Get
func c16Conc(out *Out, c C16Case) {
	cj, _ := json.Marshal(c)
	out.Ev("Init", "prog", (&EvalProg{K: "done"}).tla(), "case", string(cj))
	var execs int32
	entered := make(chan struct{}, 64)
	release := make(chan struct{})
	body := func() int {
		n := atomic.AddInt32(&execs, 1)
		entered <- struct{}{}
		<-release
		return 100 + int(n)
	}
	var get func() int
	switch c.What {
	case "lazy.Call":
		e := lazy.Call(body)
		get = e.Get
	case "lazy.TailCall":
		e := lazy.TailCall(func() lazy.Eval[int] { return lazy.Done(body()) })
		get = e.Get
	case "lazy.Memoize":
		get = lazy.Memoize(body)
	case "fp.Memoize":
		m := fp.Memoize(body)
		get = func() int { return m(fp.Unit{}) }
	case "list.head":
		l := fp.MakeList(func() fp.Option[int] { return fp.Some(body()) }, func() fp.List[int] { return list.Empty[int]() })
		get = func() int { return l.Head() }
	case "list.tail":
		l := fp.MakeList(func() fp.Option[int] { return fp.Some(0) }, func() fp.List[int] { return list.Of(body()) })
		get = func() int { return l.Tail().Head() }
	case "lazy.Func1":
		e := lazy.Func1(func(a int) int { return body() + a - a })(1)
		get = e.Get
	default:
		fatal("c16: unknown conc target", c.What)
	}
	results := make([]int, c.N)
	var wg sync.WaitGroup
	wg.Add(1)
	go func() { defer wg.Done(); results[0] = get() }()
	<-entered
	for i := 1; i < c.N; i++ {
		i := i
		wg.Add(1)
		go func() { defer wg.Done(); results[i] = get() }()
	}
	// give the other getters time to reach the computation; whether they have is irrelevant to the verdict
	time.Sleep(2 * time.Millisecond)
	runtime.Gosched()
	close(release)
	wg.Wait()
	again := get()
	distinct := map[int]bool{again: true}
	for _, r := range results {
		distinct[r] = true
	}
	out.Ev("Conc", "what", c.What, "getters", c.N, "execs", int(atomic.LoadInt32(&execs)), "distinct", len(distinct))
	out.Ev("End")
}

func cmdC16(args []string) {
	if len(args) != 2 {
		fatal("usage: fpcheck c16 cases.json out.ndjson")
	}
	var cases []C16Case
	readJSON(args[0], &cases)
	out := NewOut(args[1])
	defer out.Close()
	sum := Summary{}
	for _, c := range cases {
		switch c.Kind {
		case "prog":
			c16Prog(out, c)
			out.tr++
		case "gen":
			r := rand.New(rand.NewSource(c.Seed))
			for i := 0; i < c.Count; i++ {
				id := 0
				cc := C16Case{Kind: "prog", Prog: randProg(r, 1+r.Intn(c.Depth), &id), Gets: 1 + r.Intn(3)}
				c16Prog(out, cc)
				out.tr++
				sum.Inc("progs", 1)
			}
			continue
		case "chain":
			c16Chain(out, c)
			out.tr++
		case "conc":
			c16Conc(out, c)
			out.tr++
		case "share":
			c16Share(out, c)
			out.tr++
		case "paniconce":
			c16PanicOnce(out, c)
			out.tr++
		}
		sum.Inc(c.Kind, 1)
	}
	sum["events"] = out.n
	sum["traces"] = out.tr
	sum.Print()
}

func init() { commands["c16"] = cmdC16 }
