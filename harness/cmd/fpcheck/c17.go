//go:build verif

package main

import (
	"encoding/json"
	"errors"
	"math/rand"

	"github.com/csgura/fp"
	"github.com/csgura/fp/iterator"
	"github.com/csgura/fp/statet"
)

// ---- C17: fp.StateT programs against StateTSpec.tla ----

type STProg struct {
	K   string    `json:"k"`
	Id  int       `json:"id"`
	X   int       `json:"x"`
	F   string    `json:"f"`
	E   string    `json:"e"`
	C   string    `json:"c"`
	Var string    `json:"var"`
	Xs  []int     `json:"xs"`
	Ps  []*STProg `json:"ps"`
	P   *STProg   `json:"p,omitempty"`
	Q   *STProg   `json:"q,omitempty"`
}

type C17Case struct {
	Kind  string  `json:"kind"` // prog | gen
	Prog  *STProg `json:"prog,omitempty"`
	S0    int     `json:"s0"`
	Seed  int64   `json:"seed,omitempty"`
	Count int     `json:"count,omitempty"`
	Depth int     `json:"depth,omitempty"`
}

type ST = fp.StateT[int, []int]

var stErrs = map[string]error{"e1": errors.New("e1"), "e2": errors.New("e2"), "e3": errors.New("e3"), "h": errors.New("h")}

func stErrName(err error) string {
	for n, e := range stErrs {
		if err == e { // the very error value that was injected
			return n
		}
	}
	if err == fp.ErrOptionEmpty {
		return "none"
	}
	return "?"
}

func stFn(f string) func(int) int {
	switch f {
	case "inc":
		return func(x int) int { return x + 1 }
	case "dbl":
		return func(x int) int { return 2 * x }
	case "zero":
		return func(int) int { return 0 }
	}
	return func(x int) int { return x }
}

type stRec struct {
	tr []int
	hs []map[string]any
}

func scalar(v []int) int {
	if len(v) == 0 {
		return 0
	}
	return v[0]
}

func unitToList(s fp.StateT[int, fp.Unit]) ST {
	return statet.Map(s, func(fp.Unit) []int { return []int{} })
}

func (r *stRec) cont(c string) func([]int) ST {
	return func(v []int) ST {
		x := scalar(v)
		switch c {
		case "kput":
			return r.build(&STProg{K: "then", P: &STProg{K: "put", Id: 51, X: x}, Q: &STProg{K: "pure", Id: 52, X: x}})
		case "kpure":
			return r.build(&STProg{K: "pure", Id: 54, X: x + 1})
		case "kfail":
			if ((x%2)+2)%2 == 1 {
				return r.build(&STProg{K: "fail", Id: 55, E: "e2"})
			}
			return r.build(&STProg{K: "pure", Id: 56, X: x})
		case "kget":
			return r.build(&STProg{K: "get", Id: 57})
		}
		return r.build(&STProg{K: "modifyS", Id: 58, F: "inc"})
	}
}

// step wraps a primitive so that its execution is recorded when (and only when) the library runs it
func (r *stRec) step(id int, st ST) ST {
	return func(s int) (fp.Try[[]int], int) {
		r.tr = append(r.tr, id)
		return st(s)
	}
}

func (r *stRec) build(p *STProg) ST {
	switch p.K {
	case "put":
		return r.step(p.Id, unitToList(statet.Put(p.X)))
	case "get":
		return r.step(p.Id, statet.Map(statet.Get[int](), func(s int) []int { return []int{s} }))
	case "modify":
		return r.step(p.Id, unitToList(statet.Modify(stFn(p.F))))
	case "modifyS":
		return r.step(p.Id, statet.ModifyS(stFn(p.F), func(s int) []int { return []int{2 * s} }))
	case "modifyT":
		return r.step(p.Id, unitToList(statet.ModifyT(func(s int) fp.Try[int] {
			if p.X == 1 {
				return fp.Failure[int](stErrs[p.E])
			}
			return fp.Success(stFn(p.F)(s))
		})))
	case "getS":
		return r.step(p.Id, statet.GetS(func(s int) []int { return []int{stFn(p.F)(s)} }))
	case "pure":
		return r.step(p.Id, statet.Pure[int]([]int{p.X}))
	case "fail":
		return r.step(p.Id, statet.FromTry[int](fp.Failure[[]int](stErrs[p.E])))
	case "fm":
		return statet.FlatMap(r.build(p.P), r.cont(p.C))
	case "then":
		return statet.FlatMapConst(r.build(p.P), r.build(p.Q))
	case "map":
		return statet.Map(r.build(p.P), func(v []int) []int {
			o := make([]int, len(v))
			for i, x := range v {
				o[i] = stFn(p.F)(x)
			}
			return o
		})
	case "map2":
		return statet.Map2(r.build(p.P), r.build(p.Q), func(a, b []int) []int { return append(append([]int{}, a...), b...) })
	case "ap":
		// the applicative spelling: the function program (P mapped to a curried function) first, then the argument program
		fn := statet.Map(r.build(p.P), func(a []int) fp.Func1[[]int, []int] {
			return func(b []int) []int { return append(append([]int{}, a...), b...) }
		})
		return statet.Ap(fn, r.build(p.Q))
	case "aptry", "apoption":
		// a stateful function program applied to a plain Try / Option operand (x = 1: the operand is a failure / None)
		fn := statet.Map(r.build(p.P), func(a []int) fp.Func1[[]int, []int] {
			return func(b []int) []int { return append(append([]int{}, a...), b...) }
		})
		if p.K == "aptry" {
			arg := fp.Success([]int{8})
			if p.X == 1 {
				arg = fp.Failure[[]int](stErrs["e3"])
			}
			return statet.ApTry(fn, arg)
		}
		arg := fp.Some([]int{8})
		if p.X == 1 {
			arg = fp.None[[]int]()
		}
		return statet.ApOption(fn, arg)
	case "seq":
		ps := make([]ST, len(p.Ps))
		for i, q := range p.Ps {
			ps[i] = r.build(q)
		}
		return statet.Map(statet.Sequence(ps), func(vs [][]int) []int {
			o := []int{}
			for _, v := range vs {
				o = append(o, v...)
			}
			return o
		})
	case "concat":
		ps := make([]ST, len(p.Ps))
		for i, q := range p.Ps {
			ps[i] = r.build(q)
		}
		if len(ps) == 0 {
			return statet.Pure[int]([]int{})
		}
		return statet.Concat(ps[0], ps[1:]...)
	case "trav":
		f := func(x int) ST { return r.cont(p.C)([]int{x}) }
		flat := func(vs fp.Seq[[]int]) []int {
			o := []int{}
			for _, v := range vs {
				o = append(o, v...)
			}
			return o
		}
		if p.X%2 == 0 {
			return statet.Map(statet.TraverseSeq(fp.Seq[int](p.Xs), f), flat)
		}
		return statet.Map(statet.Traverse(iterator.FromSeq(fp.Seq[int](p.Xs)), f), func(it fp.Iterator[[]int]) []int { return flat(it.ToSeq()) })
	case "foldm":
		return statet.FoldM(iterator.FromSeq(fp.Seq[int](p.Xs)), []int{}, func(acc []int, x int) ST {
			return statet.Map(r.cont(p.C)([]int{x}), func(v []int) []int { return append(append([]int{}, acc...), v...) })
		})
	case "rec":
		inner := r.build(p.P)
		log := func(s int, err error) {
			r.hs = append(r.hs, map[string]any{"var": p.Var, "s": s, "e": stErrName(err)})
		}
		tv := func(v int) fp.Try[[]int] {
			if p.X == 1 {
				return fp.Failure[[]int](stErrs["h"])
			}
			return fp.Success([]int{v})
		}
		isE1 := func(err error) bool { return err == stErrs["e1"] }
		switch p.Var {
		case "Recover":
			return inner.Recover(func(err error) []int { log(-1, err); return []int{900} })
		case "RecoverT":
			return inner.RecoverT(func(err error) fp.Try[[]int] { log(-1, err); return tv(901) })
		case "RecoverWithState":
			return inner.RecoverWithState(func(s int, err error) []int { log(s, err); return []int{1000 + s} })
		case "RecoverWithStateT":
			return inner.RecoverWithStateT(func(s int, err error) fp.Try[[]int] { log(s, err); return tv(1000 + s) })
		case "RecoverWith":
			return inner.RecoverWith(func(err error) ST {
				log(-1, err)
				return r.build(stRecoveryProg(p.X))
			})
		case "RecoverCase":
			return inner.RecoverCase(isE1, func(err error) []int { log(-1, err); return []int{900} })
		case "RecoverCaseT":
			return inner.RecoverCaseT(isE1, func(err error) fp.Try[[]int] { log(-1, err); return tv(901) })
		case "RecoverCaseWith":
			return inner.RecoverCaseWith(isE1, func(err error) ST {
				log(-1, err)
				return r.build(stRecoveryProg(p.X))
			})
		}
	}
	fatal("c17: unknown node", p.K, p.Var)
	return nil
}

func (p *STProg) tla() map[string]any {
	m := map[string]any{"k": p.K, "id": p.Id, "x": p.X, "f": p.F, "e": p.E, "c": p.C, "var": p.Var}
	xs := p.Xs
	if xs == nil {
		xs = []int{}
	}
	m["xs"] = xs
	ps := []any{}
	for _, q := range p.Ps {
		ps = append(ps, q.tla())
	}
	m["ps"] = ps
	if p.P != nil {
		m["p"] = p.P.tla()
	}
	if p.Q != nil {
		m["q"] = p.Q.tla()
	}
	return m
}

func c17Run(out *Out, p *STProg, s0 int) {
	cj, _ := json.Marshal(C17Case{Kind: "prog", Prog: p, S0: s0})
	out.Ev("Init", "prog", p.tla(), "s0", s0, "case", string(cj))
	rec := &stRec{tr: []int{}, hs: []map[string]any{}}
	deadline(out, caseDeadline, func() {
		defer func() {
			if r := recover(); r != nil {
				out.Ev("Panic", "v", "panic")
			}
		}()
		st := rec.build(p)
		res, s := st.Run(s0)
		ok, v, e := res.IsSuccess(), []int{}, "-"
		if ok {
			v = res.Get()
			if v == nil {
				v = []int{}
			}
		} else {
			e = stErrName(res.Failed().Get())
		}
		out.Ev("Run", "ok", ok, "v", v, "err", e, "s", s, "steps", rec.tr, "hs", rec.hs)
		// a StateT value is a description: running the SAME value again, from another state, is an independent run
		// (nothing - an element source, a memo - may have been used up by the first run)
		rec.tr, rec.hs = []int{}, []map[string]any{}
		res2, s2 := st.Run(s0 + 1)
		ok2, v2, e2 := res2.IsSuccess(), []int{}, "-"
		if ok2 {
			if v2 = res2.Get(); v2 == nil {
				v2 = []int{}
			}
		} else {
			e2 = stErrName(res2.Failed().Get())
		}
		out.Ev("Run2", "ok", ok2, "v", v2, "err", e2, "s", s2, "steps", rec.tr, "hs", rec.hs)
	})
	out.Ev("End")
}

var stVariants = []string{"Recover", "RecoverT", "RecoverWithState", "RecoverWithStateT", "RecoverWith", "RecoverCase", "RecoverCaseT", "RecoverCaseWith"}
var stConts = []string{"kput", "kpure", "kfail", "kget", "kmods"}

func randST(r *rand.Rand, depth int, id *int) *STProg {
	*id++
	my := *id
	if depth <= 0 || r.Intn(4) == 0 {
		switch r.Intn(9) {
		case 0:
			return &STProg{K: "put", Id: my, X: r.Intn(5)}
		case 1:
			return &STProg{K: "get", Id: my}
		case 2:
			return &STProg{K: "modify", Id: my, F: []string{"inc", "dbl", "zero"}[r.Intn(3)]}
		case 3:
			return &STProg{K: "modifyS", Id: my, F: "inc"}
		case 4:
			return &STProg{K: "modifyT", Id: my, F: "inc", X: r.Intn(2), E: "e1"}
		case 5:
			return &STProg{K: "getS", Id: my, F: "dbl"}
		case 6:
			return &STProg{K: "pure", Id: my, X: r.Intn(7)}
		default:
			return &STProg{K: "fail", Id: my, E: []string{"e1", "e3"}[r.Intn(2)]}
		}
	}
	sub := func() *STProg { return randST(r, depth-1, id) }
	subs := func() []*STProg {
		n := r.Intn(4)
		ps := make([]*STProg, n)
		for i := range ps {
			ps[i] = sub()
		}
		return ps
	}
	ints := func() []int {
		xs := make([]int, r.Intn(4))
		for i := range xs {
			xs[i] = r.Intn(6)
		}
		return xs
	}
	switch r.Intn(10) {
	case 9:
		return &STProg{K: []string{"aptry", "apoption"}[r.Intn(2)], P: sub(), X: r.Intn(2)}
	case 0:
		return &STProg{K: "fm", P: sub(), C: stConts[r.Intn(len(stConts))]}
	case 1:
		return &STProg{K: "then", P: sub(), Q: sub()}
	case 2:
		return &STProg{K: "map", P: sub(), F: "inc"}
	case 3:
		return &STProg{K: []string{"map2", "ap"}[r.Intn(2)], P: sub(), Q: sub()}
	case 4:
		return &STProg{K: "seq", Ps: subs()}
	case 5:
		return &STProg{K: "concat", Ps: append([]*STProg{sub()}, subs()...)}
	case 6:
		return &STProg{K: "trav", Xs: ints(), C: stConts[r.Intn(len(stConts))], X: r.Intn(2)}
	case 7:
		return &STProg{K: "foldm", Xs: ints(), C: stConts[r.Intn(len(stConts))]}
	default:
		return &STProg{K: "rec", P: sub(), Var: stVariants[r.Intn(len(stVariants))], X: r.Intn(2)}
	}
}

// the program a RecoverWith / RecoverCaseWith handler returns: put 77 then succeed, or (x = 1) put 77 then fail with h
func stRecoveryProg(x int) *STProg {
	if x == 1 {
		return &STProg{K: "then", P: &STProg{K: "put", Id: 60, X: 77}, Q: &STProg{K: "fail", Id: 62, E: "h"}}
	}
	return &STProg{K: "then", P: &STProg{K: "put", Id: 60, X: 77}, Q: &STProg{K: "pure", Id: 61, X: 902}}
}

func cmdC17(args []string) {
	if len(args) != 2 {
		fatal("usage: fpcheck c17 cases.json out.ndjson")
	}
	var cases []C17Case
	readJSON(args[0], &cases)
	out := NewOut(args[1])
	defer out.Close()
	sum := Summary{}
	for _, c := range cases {
		if c.Kind == "gen" {
			r := rand.New(rand.NewSource(c.Seed))
			for i := 0; i < c.Count; i++ {
				id := 0
				c17Run(out, randST(r, 1+r.Intn(c.Depth), &id), r.Intn(4))
				out.tr++
				sum.Inc("random", 1)
			}
			continue
		}
		c17Run(out, c.Prog, c.S0)
		out.tr++
		sum.Inc("exported", 1)
	}
	sum["events"] = out.n
	sum["traces"] = out.tr
	sum.Print()
}

func init() { commands["c17"] = cmdC17 }
