//go:build verif

package main

import (
	"encoding/json"
	"fmt"
	"math/rand"
	"runtime"
	"sort"
	"strings"
	"sync"

	"github.com/csgura/fp"
	"github.com/csgura/fp/mutable"
	"verifharness/sched"
)

// ---- C19: mutable.CopyOnWriteMap, call/return histories ----

type C19Op struct {
	Op string `json:"op"`
	K  string `json:"k"`
	K2 string `json:"k2"`
	V  int    `json:"v"`
	Fn string `json:"fn"`
}

type C19Thread struct {
	Name string  `json:"name"`
	Ops  []C19Op `json:"ops"`
}

type C19Case struct {
	Threads  []C19Thread `json:"threads"`
	Mode     string      `json:"mode"` // sched | parallel
	Schedule []string    `json:"schedule,omitempty"`
	Explore  string      `json:"explore,omitempty"` // "" | dfs | random
	Max      int         `json:"max,omitempty"`
	Seed     int64       `json:"seed,omitempty"`
	Origin   string      `json:"origin,omitempty"`
}

func c19Apply(m *mutable.CopyOnWriteMap[string, int], o C19Op, inUser func()) (res string) {
	defer func() {
		if r := recover(); r != nil {
			res = "panic"
		}
	}()
	pred := func(x int) bool {
		switch o.Fn {
		case "always":
			return true
		case "odd":
			return x%2 == 1
		}
		return false
	}
	switch o.Op {
	case "get":
		return fmt.Sprint(m.Get(o.K).OrElse(0))
	case "size":
		return fmt.Sprint(m.Size())
	case "iter":
		it := m.Iterator()
		inUser()
		var parts []string
		for it.HasNext() {
			t := it.Next()
			parts = append(parts, fmt.Sprintf("%s=%d,", t.I1, t.I2))
		}
		sort.Strings(parts)
		return strings.Join(parts, "")
	case "put":
		m.Updated(o.K, o.V)
		return "ok"
	case "del":
		m.Removed(o.K)
		return "ok"
	case "del2":
		m.Removed(o.K, o.K2)
		return "ok"
	case "upw":
		m.UpdatedWith(o.K, func(cur fp.Option[int]) fp.Option[int] {
			c := cur.OrElse(0)
			var n int
			switch o.Fn {
			case "inc":
				n = c + 1
			case "del":
				n = 0
			case "keep":
				n = c
			case "set":
				n = o.V
			default:
				n = c
			}
			if n == 0 {
				return fp.None[int]()
			}
			return fp.Some(n)
		})
		return "ok"
	case "cia":
		return fmt.Sprint(m.ComputeIfAbsent(o.K, func() int { inUser(); return o.V }))
	case "cif":
		return fmt.Sprint(m.ComputeIf(o.K, pred, func() int { inUser(); return o.V }))
	}
	fatal("c19: unknown op", o.Op)
	return ""
}

func c19Sched(out *Out, c C19Case, ch sched.Chooser) {
	s := sched.New()
	defer s.Close()
	m := &mutable.CopyOnWriteMap[string, int]{}
	cj, _ := json.Marshal(c)
	out.Ev("Init", "case", string(cj))
	for _, th := range c.Threads {
		th := th
		s.Start(th.Name, func() {
			for _, o := range th.Ops {
				out.Ev("Call", "t", th.Name, "op", o.Op, "k", o.K, "k2", o.K2, "v", o.V, "fn", o.Fn)
				res := c19Apply(m, o, func() { s.Yield("user.fn") })
				out.Ev("Ret", "t", th.Name, "res", res)
			}
		})
	}
	picked, ok := s.Drive(c.Schedule, ch, 100000)
	if !ok {
		fatal("c19: execution did not quiesce")
	}
	for _, t := range s.All() {
		if t.Panicked {
			out.Ev("Panic", "t", t.Name, "v", fmt.Sprint(t.PanicVal))
		}
	}
	// the final content is observable too: a last Iterator call by a fresh thread
	out.Ev("Call", "t", "t0", "op", "iter", "k", "-", "k2", "-", "v", 0, "fn", "-")
	out.Ev("Ret", "t", "t0", "res", c19Apply(m, C19Op{Op: "iter"}, func() {}))
	out.Ev("End", "picked", picked)
}

func c19Parallel(out *Out, c C19Case) {
	m := &mutable.CopyOnWriteMap[string, int]{}
	cj, _ := json.Marshal(c)
	out.Ev("Init", "case", string(cj))
	var wg sync.WaitGroup
	start := make(chan struct{})
	for _, th := range c.Threads {
		th := th
		wg.Add(1)
		go func() {
			defer wg.Done()
			<-start
			for _, o := range th.Ops {
				// Call is logged before the invocation and Ret after the return: the logged interval
				// contains the real one, so a linearizable execution stays linearizable in the log
				out.Ev("Call", "t", th.Name, "op", o.Op, "k", o.K, "k2", o.K2, "v", o.V, "fn", o.Fn)
				res := c19Apply(m, o, runtime.Gosched)
				out.Ev("Ret", "t", th.Name, "res", res)
			}
		}()
	}
	close(start)
	wg.Wait()
	out.Ev("Call", "t", "t0", "op", "iter", "k", "-", "k2", "-", "v", 0, "fn", "-")
	out.Ev("Ret", "t", "t0", "res", c19Apply(m, C19Op{Op: "iter"}, func() {}))
	out.Ev("End", "picked", []string{})
}

func cmdC19(args []string) {
	if len(args) != 2 {
		fatal("usage: fpcheck c19 cases.json out.ndjson")
	}
	var cases []C19Case
	readJSON(args[0], &cases)
	out := NewOut(args[1])
	defer out.Close()
	sum := Summary{}
	for _, c := range cases {
		if c.Mode == "parallel" {
			n := c.Max
			if n == 0 {
				n = 1
			}
			for i := 0; i < n; i++ {
				c19Parallel(out, c)
				out.tr++
				sum.Inc("parallel", 1)
			}
			continue
		}
		switch c.Explore {
		case "":
			c19Sched(out, c, sched.First)
			out.tr++
			sum.Inc("executions", 1)
		case "random":
			r := rand.New(rand.NewSource(c.Seed))
			for i := 0; i < c.Max; i++ {
				cc := c
				cc.Explore = ""
				c19Sched(out, cc, sched.Random(r.Int63()))
				out.tr++
				sum.Inc("executions", 1)
			}
		case "dfs":
			cc := c
			cc.Explore = ""
			n, complete := sched.DFS(c.Max, nil, func(ch sched.Chooser) {
				c19Sched(out, cc, ch)
				out.tr++
			})
			sum.Inc("executions", n)
			if complete {
				sum.Inc("dfs_complete", 1)
			} else {
				sum.Inc("dfs_capped", 1)
			}
		}
	}
	sum["events"] = out.n
	sum["traces"] = out.tr
	sum.Print()
}

func init() { commands["c19"] = cmdC19 }
