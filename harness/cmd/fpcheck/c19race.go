//go:build verif

package main

import (
	"fmt"
	"strconv"
	"sync"

	"github.com/csgura/fp"
	"github.com/csgura/fp/mutable"
)

// c19race: real parallel goroutines hammer one CopyOnWriteMap without any logging in between.
// Run from a binary built with -race: the Go race detector (or the runtime's own "concurrent map"
// check) reports when a writer mutates the published snapshot that readers are using.
func cmdC19Race(args []string) {
	n := 2000
	if len(args) > 0 {
		n, _ = strconv.Atoi(args[0])
	}
	for round := 0; round < 4; round++ {
		m := &mutable.CopyOnWriteMap[string, int]{}
		if round%2 == 1 {
			m.Updated("a", 1)
			m.Updated("b", 2)
		}
		var wg sync.WaitGroup
		run := func(f func(i int)) {
			wg.Add(1)
			go func() {
				defer wg.Done()
				for i := 0; i < n; i++ {
					f(i)
				}
			}()
		}
		run(func(i int) { m.Updated("a", i) })
		run(func(i int) {
			m.UpdatedWith("b", func(o fp.Option[int]) fp.Option[int] { return fp.Some(o.OrElse(0) + 1) })
		})
		run(func(i int) {
			if i%3 == 0 {
				m.Removed("c")
			} else {
				m.ComputeIfAbsent("c", func() int { return i })
			}
		})
		sink := 0
		var smu sync.Mutex
		for r := 0; r < 3; r++ {
			run(func(i int) {
				v := m.Get("a").OrElse(0) + m.Size()
				it := m.Iterator()
				for it.HasNext() {
					v += it.Next().I2
				}
				smu.Lock()
				sink += v
				smu.Unlock()
			})
		}
		wg.Wait()
		_ = sink
	}
	fmt.Println(`{"rounds":4}`)
}

func init() { commands["c19race"] = cmdC19Race }
