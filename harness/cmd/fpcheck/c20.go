//go:build verif

package main

import (
	"encoding/json"
	"fmt"
	"math/rand"
	"strings"

	"github.com/csgura/fp"
	"github.com/csgura/fp/as"
	"github.com/csgura/fp/eq"
	"github.com/csgura/fp/hash"
	"github.com/csgura/fp/immutable"
	"github.com/csgura/fp/iterator"
	"github.com/csgura/fp/lazy"
	"github.com/csgura/fp/list"
	"github.com/csgura/fp/monoid"
	"github.com/csgura/fp/mutable"
	"github.com/csgura/fp/option"
	"github.com/csgura/fp/ord"
	"github.com/csgura/fp/seq"
	"github.com/csgura/fp/try"
)

// ---- C20 / C12: iterators of the real library against IterSpec.tla ----

type Stage struct {
	T    string `json:"t"`
	N    int    `json:"n"`
	P    string `json:"p"`
	F    string `json:"f"`
	Lit  []int  `json:"lit"`
	Impl string `json:"impl,omitempty"` // variant of the library function implementing the stage
}

type IterCase struct {
	Src     []int   `json:"src"`
	Inf     bool    `json:"inf,omitempty"`  // unbounded generator: Src is its visible prefix, then the budget ends the run
	Ctor    string  `json:"ctor,omitempty"` // how the source iterator is made ("" = instrumented MakeIterator)
	Pipe    []Stage `json:"pipe"`
	Two     string  `json:"two,omitempty"` // "" | dup | span | partition  (two-sided producer applied last)
	TwoP    string  `json:"twop,omitempty"`
	Calls   string  `json:"calls"`           // H = HasNext, N = Next ; lower case h/n = the same on side R
	Whole   string  `json:"whole,omitempty"` // terminal operation applied after the calls
	LCtor   string  `json:"lctor,omitempty"` // list walk: how the lazy list is made from the source
	Walk    string  `json:"walk,omitempty"`  // list walk: T = Tail, H = Head, E = IsEmpty, R = back to the first cell
	Origin  string  `json:"origin,omitempty"`
	Comment string  `json:"comment,omitempty"`
}

type budgetPanic struct{}

type srcCounter struct {
	pulled int
}

func (c IterCase) source(cnt *srcCounter) (it fp.Iterator[int], lazy bool, unord bool) {
	s := c.Src

	switch c.Ctor {
	case "":
		i := 0
		return fp.MakeIterator(func() bool {
			if c.Inf {
				return true
			}
			return i < len(s)
		}, func() int {
			if i >= len(s) {
				if c.Inf {
					panic(budgetPanic{})
				}
				panic("next on empty iterator")
			}
			v := s[i]
			i++
			cnt.pulled++
			return v
		}), true, false
	case "IteratorOfSeq":
		return fp.IteratorOfSeq(s), false, false
	case "FromSeq":
		return iterator.FromSeq(fp.Seq[int](s)), false, false
	case "FromSlice":
		return iterator.FromSlice(s), false, false
	case "Of":
		return iterator.Of(s...), false, false
	case "seq.Iterator":
		return seq.Iterator(fp.Seq[int](s)), false, false
	case "FromList":
		return iterator.FromList(list.Of(s...)), false, false
	case "List":
		return iterator.List(list.FromSeq(fp.Seq[int](s))), false, false
	case "Pull":
		return iterator.Pull(fp.IteratorOfSeq(s).All()), false, false
	case "zero":
		var z fp.Iterator[int]
		return z, false, false
	case "Empty":
		return iterator.Empty[int](), false, false
	case "FromOption", "IteratorOfOption", "option.Iterator", "try.Iterator", "FromPtr":
		o := fp.None[int]()
		if len(s) > 0 {
			o = fp.Some(s[0])
		}
		switch c.Ctor {
		case "FromOption":
			return iterator.FromOption(o), false, false
		case "IteratorOfOption":
			return fp.IteratorOfOption(o), false, false
		case "option.Iterator":
			return option.Iterator(o), false, false
		case "FromPtr":
			if len(s) > 0 {
				return iterator.FromPtr(&s[0]), false, false
			}
			return iterator.FromPtr[int](nil), false, false
		default:
			if len(s) > 0 {
				return try.Iterator(fp.Success(s[0])), false, false
			}
			return try.Iterator(fp.Failure[int](fmt.Errorf("e"))), false, false
		}
	case "Range":
		return iterator.Range(s[0], s[0]+len(s)), false, false
	case "RangeClosed":
		return iterator.RangeClosed(s[0], s[0]+len(s)-1), false, false
	case "hamt.Map", "hamt.Keys", "hamt.Values", "hamt.Set", "gomap", "UnsafeGoMap", "mutable.Map", "mutable.Set", "IteratorOfGoMap", "IteratorOfGoSet", "zeroMap",
		"hamt.MapColl", "hamt.KeysColl", "hamt.SetColl":
		// src is a list of distinct keys; the value of key k is k%3+1; the iterator yields 100*k+v (or k)
		tp := make([]fp.Tuple2[int, int], len(s))
		gm := map[int]int{}
		for i, k := range s {
			tp[i] = as.Tuple2(k, k%3+1)
			gm[k] = k%3 + 1
		}
		enc := func(t fp.Tuple2[int, int]) int { return 100*t.I1 + t.I2 }
		// a lawful hasher with few values: several groups of fully colliding keys (collision leaves next to each other)
		coll := hash.New(eq.Given[int](), func(k int) uint32 { return uint32(k % 4) })
		switch c.Ctor {
		case "hamt.MapColl":
			return iterator.Map(immutable.Map(coll, tp...).Iterator(), enc), false, true
		case "hamt.KeysColl":
			return immutable.Map(coll, tp...).Keys(), false, true
		case "hamt.SetColl":
			return immutable.Set(coll, s...).Iterator(), false, true
		case "hamt.Map":
			return iterator.Map(immutable.Map(hash.Number[int](), tp...).Iterator(), enc), false, true
		case "hamt.Keys":
			return immutable.Map(hash.Number[int](), tp...).Keys(), false, true
		case "hamt.Values":
			return immutable.Map(hash.Number[int](), tp...).Values(), false, true
		case "hamt.Set":
			return immutable.Set(hash.Number[int](), s...).Iterator(), false, true
		case "gomap":
			return iterator.Map(iterator.FromMap(gm), enc), false, true
		case "IteratorOfGoMap":
			return iterator.Map(fp.IteratorOfGoMap(gm), enc), false, true
		case "IteratorOfGoSet":
			gs := map[int]bool{}
			for _, k := range s {
				gs[k] = true
			}
			return fp.IteratorOfGoSet(gs), false, true
		case "UnsafeGoMap":
			um := fp.UnsafeGoMap[int, int]{}
			for k, v := range gm {
				um[k] = v
			}
			return iterator.Map(um.Iterator(), enc), false, true
		case "mutable.Map":
			return iterator.Map(mutable.Map[int, int](gm).Iterator(), enc), false, true
		case "mutable.Set":
			ms := mutable.Set[int]{}
			for _, k := range s {
				ms[k] = true
			}
			return ms.Iterator(), false, true
		case "zeroMap":
			var zm fp.Map[int, int]
			for _, t := range tp {
				zm = zm.Updated(t.I1, t.I2)
			}
			return iterator.Map(zm.Iterator(), enc), false, true
		}
	}
	fatal("c20: unknown ctor", c.Ctor)
	return
}

// content is what the source iterator is expected to yield (for hash collections: in any order)
func (c IterCase) content() []int {
	out := []int{}
	switch c.Ctor {
	case "hamt.Map", "gomap", "UnsafeGoMap", "mutable.Map", "IteratorOfGoMap", "zeroMap", "hamt.MapColl":
		for _, k := range c.Src {
			out = append(out, 100*k+k%3+1)
		}
	case "hamt.Values":
		for _, k := range c.Src {
			out = append(out, k%3+1)
		}
	case "zero", "Empty":
	case "FromOption", "IteratorOfOption", "option.Iterator", "try.Iterator", "FromPtr":
		if len(c.Src) > 0 {
			out = append(out, c.Src[0])
		}
	default:
		out = append(out, c.Src...)
	}
	return out
}

func applyStage(it fp.Iterator[int], st Stage) fp.Iterator[int] {
	p, f := seqPred(st.P), seqFn(st.F)
	alt := st.Impl == "func"
	switch st.T {
	case "take":
		return it.Take(st.N)
	case "drop":
		return it.Drop(st.N)
	case "tw":
		return it.TakeWhile(p)
	case "dw":
		return it.DropWhile(p)
	case "filter":
		if alt {
			return iterator.FilterMap(it, func(x int) fp.Option[int] {
				if p(x) {
					return fp.Some(x)
				}
				return fp.None[int]()
			})
		}
		return it.Filter(p)
	case "filternot":
		return it.FilterNot(p)
	case "map":
		if alt {
			return iterator.Map(it, f)
		}
		return it.Map(f)
	case "flatmap":
		if alt {
			return iterator.FlatMap(it, func(x int) fp.Iterator[int] { return iterator.Of(x, f(x)) })
		}
		return it.FlatMap(func(x int) fp.Iterator[int] { return iterator.Of(x, f(x)) })
	case "concat":
		if alt && len(st.Lit) == 1 {
			return it.Appended(st.Lit[0])
		}
		return it.Concat(fp.IteratorOfSeq(st.Lit))
	case "prepend":
		if len(st.Lit) == 1 {
			return iterator.Concat(st.Lit[0], it)
		}
		return fp.IteratorOfSeq(st.Lit).Concat(it)
	case "zip":
		// zipped with a literal second operand: element i becomes x + 10*lit[i]
		return iterator.Map(iterator.Zip(it, fp.IteratorOfSeq(st.Lit)), func(t fp.Tuple2[int, int]) int { return t.I1 + 10*t.I2 })
	case "zip3":
		// three operands: the source, the literal and the reversed first n elements of the literal
		l3 := zip3Third(st.Lit, st.N)
		return iterator.Map(iterator.Zip3(it, fp.IteratorOfSeq(st.Lit), fp.IteratorOfSeq(l3)), func(t fp.Tuple3[int, int, int]) int {
			return t.I1 + 10*t.I2 + 100*t.I3
		})
	case "scan":
		return iterator.Scan(it, 0, func(b, a int) int { return b + a })
	case "zipidx":
		return iterator.Map(iterator.ZipWithIndex(it), zipEnc)
	case "zerotail":
		var z fp.Iterator[int]
		return it.Concat(z)
	case "tap":
		return it.TapEach(func(int) {})
	case "id":
		switch st.Impl {
		case "pull":
			return iterator.Pull(it.All())
		case "list":
			return iterator.FromList(list.Collect(it))
		case "flatten":
			return iterator.Flatten(iterator.Map(it, func(x int) fp.Iterator[int] { return iterator.Of(x) }))
		}
		return it
	case "sort":
		return iterator.FromSeq(iterator.Sort(it, ord.Given[int]()))
	case "reverse":
		return iterator.ReverseSeq(it.ToSeq())
	case "spanl":
		l, _ := iterator.Span(it, p)
		return l
	case "spanr":
		_, r := iterator.Span(it, p)
		return r
	case "partl":
		l, _ := iterator.Partition(it, p)
		return l
	case "partr":
		_, r := iterator.Partition(it, p)
		return r
	}
	fatal("c20: unknown stage", st.T)
	return it
}

func stagesJSON(p []Stage) []map[string]any {
	out := []map[string]any{}
	for _, s := range p {
		lit := s.Lit
		if lit == nil {
			lit = []int{}
		}
		buf := 0
		if s.T == "id" && (s.Impl == "list" || s.Impl == "pull") {
			buf = 1
		}
		out = append(out, map[string]any{"t": s.T, "n": s.N, "p": s.P, "f": s.F, "lit": lit, "buf": buf})
	}
	return out
}

// c20List walks a lazy fp.List cell by cell in an arbitrary order of Head / IsEmpty / Tail calls.
func c20List(out *Out, c IterCase) {
	cnt := &srcCounter{}
	src, _, _ := IterCase{Src: c.Src}.source(cnt)
	genCalls := map[int]int{}
	var l fp.List[int]
	pipe := []Stage{}
	f := seqFn("inc")
	switch c.LCtor {
	case "Collect":
		l = list.Collect(src)
	case "ToList":
		l = iterator.ToList(src)
	case "FromSeq":
		l = list.FromSeq(fp.Seq[int](c.Src))
	case "Of":
		l = list.Of(c.Src...)
	case "Generate":
		l = list.Generate(func(i int) fp.Option[int] {
			genCalls[i]++
			if i < len(c.Src) {
				return fp.Some(c.Src[i])
			}
			return fp.None[int]()
		})
	case "Map":
		l = list.Map(list.Collect(src), f)
		pipe = []Stage{{T: "map", F: "inc"}}
	case "FilterMap":
		p := seqPred("odd")
		l = list.FilterMap(list.Collect(src), func(x int) fp.Option[int] {
			if p(x) {
				return fp.Some(x)
			}
			return fp.None[int]()
		})
		pipe = []Stage{{T: "filter", P: "odd"}}
	case "ZipWithIndex":
		l = list.Map(list.ZipWithIndex(list.Collect(src)), zipEnc)
		pipe = []Stage{{T: "zipidx"}}
	case "Scan":
		l = list.Scan(list.Collect(src), 0, func(b, a int) int { return b + a })
		pipe = []Stage{{T: "scan"}}
	case "Combine":
		l = list.Combine(list.Collect(src), list.Of(7, 8))
		pipe = []Stage{{T: "concat", Lit: []int{7, 8}}}
	case "Concat":
		l = list.Concat(9, list.Collect(src))
		pipe = []Stage{{T: "prepend", Lit: []int{9}}}
	case "FlatMap":
		l = list.FlatMap(list.Collect(src), func(x int) fp.List[int] { return list.Of(x, f(x)) })
		pipe = []Stage{{T: "flatmap", F: "inc"}}
	default:
		fatal("c20: unknown list constructor", c.LCtor)
	}
	out.Ev("Init", "src", c.Src, "pipe", stagesJSON(pipe), "pipeR", stagesJSON(nil), "two", false, "unord", false,
		"pulled0", cnt.pulled, "slack0", 2, "lazy", false, "case", caseJSON(c))
	cur, pos := l, 0
	for i := 0; i < len(c.Walk); i++ {
		stop := false
		func() {
			op := c.Walk[i]
			defer func() {
				if r := recover(); r != nil {
					if op == 'H' {
						out.Ev("List", "op", "H", "pos", pos, "v", 0, "pn", true, "r", false)
						return
					}
					out.Ev("ListPanic", "op", string(op), "pos", pos, "v", fmt.Sprint(r))
					stop = true
				}
			}()
			switch op {
			case 'H':
				v := cur.Head()
				out.Ev("List", "op", "H", "pos", pos, "v", v, "pn", false, "r", false)
			case 'E':
				out.Ev("List", "op", "E", "pos", pos, "v", 0, "pn", false, "r", cur.IsEmpty())
			case 'T':
				if pos <= len(c.Src)*2+3 {
					cur = cur.Tail()
					pos++
				}
			case 'R':
				cur, pos = l, 0
			}
		}()
		if stop {
			break
		}
	}
	mx := 0
	for _, n := range genCalls {
		if n > mx {
			mx = n
		}
	}
	out.Ev("GenCalls", "max", mx, "pulled", cnt.pulled, "srclen", len(c.Src))
	out.Ev("End")
}

func c20Run(out *Out, c IterCase) {
	if c.LCtor != "" {
		c20List(out, c)
		return
	}
	cnt := &srcCounter{}
	var itL, itR fp.Iterator[int]
	lazy, unord := false, false
	pipeL := append([]Stage(nil), c.Pipe...)
	pipeR := []Stage{}
	built := func() (ok bool) {
		defer func() {
			if r := recover(); r != nil {
				if _, b := r.(budgetPanic); b {
					out.Ev("Init", "src", c.content(), "pipe", stagesJSON(pipeL), "pipeR", stagesJSON(pipeR), "two", c.Two != "", "unord", false,
						"pulled0", 0, "slack0", 0, "lazy", false, "case", caseJSON(c))
					out.Ev("Budget", "inf", c.Inf, "during", "Build", "pulled", cnt.pulled)
				} else {
					out.Ev("Init", "src", c.content(), "pipe", stagesJSON(pipeL), "pipeR", stagesJSON(pipeR), "two", c.Two != "", "unord", false,
						"pulled0", 0, "slack0", 0, "lazy", false, "case", caseJSON(c))
					out.Ev("PanicBuild", "v", fmt.Sprint(r))
				}
				ok = false
			}
		}()
		var it fp.Iterator[int]
		it, lazy, unord = c.source(cnt)
		for _, st := range c.Pipe {
			it = applyStage(it, st)
		}
		switch c.Two {
		case "":
			itL = it
		case "dup":
			itL, itR = iterator.Duplicate(it)
			pipeR = append([]Stage(nil), c.Pipe...)
		case "span":
			itL, itR = iterator.Span(it, seqPred(c.TwoP))
			pipeR = append(append([]Stage(nil), c.Pipe...), Stage{T: "spanr", P: c.TwoP})
			pipeL = append(pipeL, Stage{T: "spanl", P: c.TwoP})
		case "partition":
			itL, itR = iterator.Partition(it, seqPred(c.TwoP))
			pipeR = append(append([]Stage(nil), c.Pipe...), Stage{T: "partr", P: c.TwoP})
			pipeL = append(pipeL, Stage{T: "partl", P: c.TwoP})
		}
		return true
	}()
	if !built {
		out.Ev("End")
		return
	}
	// a Drop stage consumes eagerly when the pipeline is built; the stages in front of it may look ahead
	slack0 := 0
	for i, st := range c.Pipe {
		if st.T == "drop" {
			slack0 += 2 * i
		}
	}
	out.Ev("Init", "src", c.content(), "pipe", stagesJSON(pipeL), "pipeR", stagesJSON(pipeR), "two", c.Two != "", "unord", unord,
		"pulled0", cnt.pulled, "slack0", slack0, "lazy", lazy, "case", caseJSON(c))
	call := func(side string, it fp.Iterator[int], what byte) (stop bool) {
		during := "Has"
		defer func() {
			if r := recover(); r != nil {
				if _, b := r.(budgetPanic); b {
					out.Ev("Budget", "inf", c.Inf, "during", during, "pulled", cnt.pulled)
					stop = true
					return
				}
				if during == "Has" {
					out.Ev("PanicHas", "side", side, "v", fmt.Sprint(r))
					stop = true
					return
				}
				out.Ev("Next", "side", side, "v", 0, "pn", true, "pulled", cnt.pulled)
			}
		}()
		if what == 'H' {
			r := it.HasNext()
			out.Ev("Has", "side", side, "r", r, "pulled", cnt.pulled)
		} else {
			during = "Next"
			v := it.Next()
			out.Ev("Next", "side", side, "v", v, "pn", false, "pulled", cnt.pulled)
		}
		return false
	}
	for i := 0; i < len(c.Calls); i++ {
		ch := c.Calls[i]
		var stop bool
		switch ch {
		case 'H', 'N':
			stop = call("L", itL, ch)
		case 'h', 'n':
			if c.Two == "" {
				continue
			}
			stop = call("R", itR, ch-32)
		}
		if stop {
			out.Ev("End")
			return
		}
	}
	if c.Whole != "" {
		func() {
			defer func() {
				if r := recover(); r != nil {
					if _, b := r.(budgetPanic); b {
						out.Ev("Budget", "inf", c.Inf, "during", "Has", "pulled", cnt.pulled)
						return
					}
					out.Ev("PanicWhole", "op", c.Whole, "v", fmt.Sprint(r))
				}
			}()
			var res []int
			switch c.Whole {
			case "ToSeq":
				res = itL.ToSeq()
			case "iterator.ToSeq":
				res = iterator.ToSeq(itL)
			case "ToSlice":
				res = iterator.ToSlice(itL)
			case "seq.Collect":
				res = seq.Collect(itL)
			case "ToList":
				res = iterator.ToList(itL).ToSeq()
			case "All":
				res = []int{}
				for v := range itL.All() {
					res = append(res, v)
				}
			case "Foreach":
				res = []int{}
				itL.Foreach(func(v int) { res = append(res, v) })
			case "Fold":
				res = iterator.Fold(itL, []int{}, func(b []int, a int) []int { return append(b, a) })
			case "NextOption":
				res = []int{}
				for o := itL.NextOption(); o.IsDefined(); o = itL.NextOption() {
					res = append(res, o.Get())
				}
			case "Count":
				n := itL.Count()
				out.Ev("Count", "n", n)
				return
			}
			if strings.HasSuffix(c.Whole, ".Min") || strings.HasSuffix(c.Whole, ".Max") {
				extremeFamily(out, c.Whole, itL)
				return
			}
			if strings.Contains(c.Whole, "Fold") && c.Whole != "Fold" {
				foldFamily(out, c.Whole, itL, len(c.Src)+len(c.Calls)+len(c.Pipe))
				return
			}
			out.Ev("Whole", "op", c.Whole, "out", res)
		}()
	}
	out.Ev("End")
}

func caseJSON(c IterCase) string {
	b, _ := json.Marshal(c)
	return string(b)
}

// ---- case generation (seeded) ----

var lazyStages = []string{"take", "drop", "tw", "dw", "filter", "filternot", "map", "flatmap", "concat", "prepend", "scan", "zipidx", "zip", "zip3", "tap", "id", "spanl", "spanr", "partl", "partr"}

func zip3Third(lit []int, n int) []int {
	k := n
	if k > len(lit) {
		k = len(lit)
	}
	out := make([]int, k)
	for i := 0; i < k; i++ {
		out[i] = lit[k-1-i]
	}
	return out
}

func randStage(r *rand.Rand, eager bool) Stage {
	t := lazyStages[r.Intn(len(lazyStages))]
	if eager && r.Intn(6) == 0 {
		t = []string{"sort", "reverse"}[r.Intn(2)]
	}
	st := Stage{T: t, N: r.Intn(5), P: seqPreds[r.Intn(len(seqPreds))], F: seqFns[r.Intn(len(seqFns))]}
	if r.Intn(2) == 0 {
		st.Impl = "func"
	}
	if t == "id" {
		st.Impl = []string{"", "pull", "list", "flatten"}[r.Intn(4)]
	}
	if t == "zip" || t == "zip3" {
		st.Lit = make([]int, r.Intn(5))
		for i := range st.Lit {
			st.Lit[i] = r.Intn(5) + 1
		}
	}
	if t == "concat" || t == "prepend" {
		st.Lit = make([]int, r.Intn(3))
		for i := range st.Lit {
			st.Lit[i] = r.Intn(5) + 1
		}
	}
	return st
}

func randCalls(r *rand.Rand, n int, two bool) string {
	b := make([]byte, n)
	style := r.Intn(5)
	for i := range b {
		var ch byte
		switch style {
		case 0: // well-behaved: H N H N
			ch = "HN"[i%2]
		case 1: // Next only
			ch = 'N'
		case 2: // HasNext twice before every Next
			ch = "HHN"[i%3]
		default:
			ch = "HN"[r.Intn(2)]
		}
		if two && r.Intn(2) == 0 {
			ch += 32
		}
		b[i] = ch
	}
	return string(b)
}

type IterGen struct {
	Kind  string     `json:"kind"` // pipelines | producers | twosided | unbounded
	N     int        `json:"n"`
	Seed  int64      `json:"seed"`
	Depth int        `json:"depth"`
	Len   int        `json:"len"`
	Calls int        `json:"calls"`
	Cases []IterCase `json:"cases,omitempty"` // explicit cases (TLC-exported or replay)
}

var ctorsOrdered = []string{"IteratorOfSeq", "FromSeq", "FromSlice", "Of", "seq.Iterator", "FromList", "List", "Pull", "zero", "Empty",
	"FromOption", "IteratorOfOption", "option.Iterator", "try.Iterator", "FromPtr", "Range", "RangeClosed"}
var ctorsUnordered = []string{"hamt.Map", "hamt.Keys", "hamt.Values", "hamt.Set", "gomap", "UnsafeGoMap", "mutable.Map", "mutable.Set",
	"IteratorOfGoMap", "IteratorOfGoSet", "zeroMap", "hamt.MapColl", "hamt.KeysColl", "hamt.SetColl", "hamt.MapColl", "hamt.SetColl"}
var wholes = []string{"", "", "ToSeq", "iterator.ToSeq", "ToSlice", "seq.Collect", "ToList", "All", "Foreach", "Fold", "NextOption",
	"iterator.FoldTry", "iterator.FoldOption", "iterator.FoldError", "iterator.FoldRight",
	"list.Fold", "list.FoldLeft", "list.FoldTry", "list.FoldOption", "list.FoldError", "list.FoldRight", "list.FoldMap",
	"seq.Fold", "seq.FoldTry", "seq.FoldOption", "seq.FoldError", "seq.FoldRight", "seq.FoldMap",
	"iterator.Min", "iterator.Max", "list.Min", "list.Max", "seq.Min", "seq.Max"}

// Min / Max of iterator, list and seq under a coarse order (elements with the same key (v+100)/2 are tied but distinguishable):
// all three must pick the same element, the one the eager reference picks
func extremeFamily(out *Out, op string, it fp.Iterator[int]) {
	coarse := ord.ContraMap(ord.Given[int](), func(v int) int { return (v + 100) / 2 })
	var r fp.Option[int]
	switch op {
	case "iterator.Min":
		r = iterator.Min(it, coarse)
	case "iterator.Max":
		r = iterator.Max(it, coarse)
	case "list.Min":
		r = list.Min(iterator.ToList(it), coarse)
	case "list.Max":
		r = list.Max(iterator.ToList(it), coarse)
	case "seq.Min":
		r = seq.Min(it.ToSeq(), coarse)
	case "seq.Max":
		r = seq.Max(it.ToSeq(), coarse)
	}
	res := []int{}
	if r.IsDefined() {
		res = append(res, r.Get())
	}
	out.Ev("Extreme", "op", op, "out", res)
}

// the Fold family of iterator / list / seq: the step function fails on the first element equal to stop (never: a value no element has);
// the elements folded before that and whether the fold reported the failure are logged
func foldFamily(out *Out, op string, it fp.Iterator[int], key int) {
	const never = 1 << 20 // no element has this value
	stop := []int{never, never, 0, 1, 2, 3, -2, 4}[key%8]
	acc := []int{}
	failed := false
	errStop := fmt.Errorf("stop")
	stepTry := func(b []int, a int) fp.Try[[]int] {
		if a == stop {
			return fp.Failure[[]int](errStop)
		}
		return fp.Success(append(b[:len(b):len(b)], a))
	}
	stepOpt := func(b []int, a int) fp.Option[[]int] {
		if a == stop {
			return fp.None[[]int]()
		}
		return fp.Some(append(b[:len(b):len(b)], a))
	}
	stepErr := func(a int) error {
		if a == stop {
			return errStop
		}
		acc = append(acc, a)
		return nil
	}
	plain := func(b []int, a int) []int { return append(b[:len(b):len(b)], a) }
	right := func(a int, b lazy.Eval[[]int]) lazy.Eval[[]int] {
		return b.Map(func(t []int) []int { return append([]int{a}, t...) })
	}
	sliceMonoid := monoid.MergeSlice[int]()
	one := func(a int) []int { return []int{a} }
	fromTry := func(t fp.Try[[]int]) {
		if t.IsSuccess() {
			acc = t.Get()
		} else {
			failed = true
		}
	}
	fromOpt := func(t fp.Option[[]int]) {
		if t.IsDefined() {
			acc = t.Get()
		} else {
			failed = true
		}
	}
	partial := false // a failing fold reports no accumulator: only the failure flag is comparable
	switch op {
	case "iterator.FoldTry":
		fromTry(iterator.FoldTry(it, []int{}, stepTry))
		partial = true
	case "iterator.FoldOption":
		fromOpt(iterator.FoldOption(it, []int{}, stepOpt))
		partial = true
	case "iterator.FoldError":
		failed = iterator.FoldError(it, stepErr) != nil
	case "iterator.FoldRight":
		stop = never
		acc = iterator.FoldRight(it, []int{}, right).Get()
	case "list.Fold":
		stop = never
		acc = list.Fold(iterator.ToList(it), []int{}, plain)
	case "list.FoldLeft":
		stop = never
		acc = list.FoldLeft(iterator.ToList(it), []int{}, plain)
	case "list.FoldTry":
		fromTry(list.FoldTry(iterator.ToList(it), []int{}, stepTry))
		partial = true
	case "list.FoldOption":
		fromOpt(list.FoldOption(iterator.ToList(it), []int{}, stepOpt))
		partial = true
	case "list.FoldError":
		failed = list.FoldError(iterator.ToList(it), stepErr) != nil
	case "list.FoldRight":
		stop = never
		acc = list.FoldRight(iterator.ToList(it), []int{}, right).Get()
	case "list.FoldMap":
		stop = never
		acc = list.FoldMap(iterator.ToList(it), sliceMonoid, one)
	case "seq.Fold":
		stop = never
		acc = seq.Fold(it.ToSeq(), []int{}, plain)
	case "seq.FoldTry":
		fromTry(seq.FoldTry(it.ToSeq(), []int{}, stepTry))
		partial = true
	case "seq.FoldOption":
		fromOpt(seq.FoldOption(it.ToSeq(), []int{}, stepOpt))
		partial = true
	case "seq.FoldError":
		failed = seq.FoldError(it.ToSeq(), stepErr) != nil
	case "seq.FoldRight":
		stop = never
		acc = seq.FoldRight(it.ToSeq(), []int{}, right).Get()
	case "seq.FoldMap":
		stop = never
		acc = seq.FoldMap(it.ToSeq(), sliceMonoid, one)
	default:
		panic("fold op " + op)
	}
	if acc == nil {
		acc = []int{}
	}
	out.Ev("FoldM", "op", op, "stop", stop, "out", acc, "failed", failed, "partial", partial && failed)
}

func genCases(g IterGen) []IterCase {
	if g.Cases != nil {
		return g.Cases
	}
	r := rand.New(rand.NewSource(g.Seed))
	var cs []IterCase
	src := func(n int) []int {
		s := make([]int, r.Intn(n+1))
		for i := range s {
			s[i] = r.Intn(5) + 1
		}
		return s
	}
	for i := 0; i < g.N; i++ {
		switch g.Kind {
		case "pipelines":
			c := IterCase{Src: src(g.Len), Calls: randCalls(r, r.Intn(g.Calls+1), false), Whole: wholes[r.Intn(len(wholes))]}
			for d := r.Intn(g.Depth) + 1; d > 0; d-- {
				c.Pipe = append(c.Pipe, randStage(r, true))
			}
			cs = append(cs, c)
		case "unbounded":
			s := make([]int, 48)
			for j := range s {
				s[j] = (j*7+r.Intn(3))%5 + 1
			}
			c := IterCase{Src: s, Inf: true, Calls: randCalls(r, r.Intn(g.Calls+1), false)}
			for d := r.Intn(g.Depth) + 1; d > 0; d-- {
				st := randStage(r, false)
				if st.T == "drop" {
					st.N = r.Intn(3)
				}
				c.Pipe = append(c.Pipe, st)
			}
			cs = append(cs, c)
		case "producers":
			all := append(append([]string{}, ctorsOrdered...), ctorsUnordered...)
			ct := all[i%len(all)]
			c := IterCase{Ctor: ct, Calls: randCalls(r, r.Intn(g.Calls+1), false), Whole: wholes[r.Intn(len(wholes))]}
			switch ct {
			case "Range", "RangeClosed":
				n := r.Intn(g.Len) + 1
				c.Src = make([]int, n)
				st := r.Intn(7) - 3
				for j := range c.Src {
					c.Src[j] = st + j
				}
			case "zero", "Empty":
				c.Src = []int{}
			case "FromOption", "IteratorOfOption", "option.Iterator", "try.Iterator", "FromPtr":
				c.Src = src(1)
			default:
				c.Src = src(g.Len)
			}
			isUn := false
			for _, u := range ctorsUnordered {
				isUn = isUn || u == ct
			}
			if isUn {
				// distinct keys
				seen := map[int]bool{}
				var ks []int
				for _, k := range r.Perm(40)[:r.Intn(g.Len*3+1)] {
					if !seen[k+1] {
						seen[k+1] = true
						ks = append(ks, k+1)
					}
				}
				c.Src = ks
				if c.Src == nil {
					c.Src = []int{}
				}
				if ct == "hamt.Values" || ct == "hamt.Keys" || ct == "hamt.Set" || ct == "mutable.Set" || ct == "IteratorOfGoSet" {
					// the iterator yields keys (or values): reference content is computed by the harness-independent rule below
				}
			} else if r.Intn(3) == 0 && ct != "zero" {
				c.Pipe = []Stage{randStage(r, false)}
			} else if ct == "zero" && r.Intn(2) == 0 {
				c.Pipe = []Stage{randStage(r, false)}
			}
			cs = append(cs, c)
		case "zero":
			// the zero-value Iterator must behave as empty in every method: enumerate them all
			calls := []string{"", "H", "N", "HNHN", "HHNN"}
			for _, st := range append(append([]string{}, lazyStages...), "sort", "reverse") {
				for _, cl := range calls {
					stage := Stage{T: st, N: 2, P: "true", F: "inc", Lit: []int{4}}
					cs = append(cs, IterCase{Src: []int{}, Ctor: "zero", Pipe: []Stage{stage}, Calls: cl, Whole: wholes[r.Intn(len(wholes))]})
					stage.Impl = "func"
					cs = append(cs, IterCase{Src: []int{}, Ctor: "zero", Pipe: []Stage{stage}, Calls: cl, Whole: "Count"})
				}
			}
			for _, w := range append(append([]string{}, wholes...), "Count") {
				cs = append(cs, IterCase{Src: []int{}, Ctor: "zero", Calls: "HNH", Whole: w})
			}
			for _, two := range []string{"dup", "span", "partition"} {
				cs = append(cs, IterCase{Src: []int{}, Ctor: "zero", Two: two, TwoP: "true", Calls: "HhNnHh"})
			}
			// a zero value in tail position of Concat
			cs = append(cs, IterCase{Src: []int{1, 2}, Ctor: "IteratorOfSeq", Pipe: []Stage{{T: "zerotail"}}, Calls: "HNHNHN"})
			i = g.N
		case "listwalk":
			lc := []string{"Collect", "ToList", "FromSeq", "Of", "Generate", "Map", "FilterMap", "ZipWithIndex", "Scan", "Combine", "Concat", "FlatMap"}
			w := make([]byte, r.Intn(g.Calls+1))
			for j := range w {
				w[j] = "TTTHHEER"[r.Intn(8)]
			}
			cs = append(cs, IterCase{Src: src(g.Len), LCtor: lc[r.Intn(len(lc))], Walk: string(w)})
		case "twosided":
			c := IterCase{Src: src(g.Len), Two: []string{"dup", "span", "partition"}[r.Intn(3)], TwoP: seqPreds[r.Intn(len(seqPreds))],
				Calls: randCalls(r, r.Intn(g.Calls+1), true)}
			if r.Intn(3) == 0 {
				c.Pipe = []Stage{randStage(r, false)}
			}
			cs = append(cs, c)
		}
	}
	return cs
}

func cmdC20(args []string) {
	if len(args) != 2 {
		fatal("usage: fpcheck c20 gens.json out.ndjson")
	}
	var gens []IterGen
	readJSON(args[0], &gens)
	out := NewOut(args[1])
	defer out.Close()
	sum := Summary{}
	for _, g := range gens {
		for _, c := range genCases(g) {
			c := c
			c.Origin = g.Kind
			deadline(out, caseDeadline, func() { c20Run(out, c) })
			out.tr++
			sum.Inc(g.Kind, 1)
		}
	}
	sum["events"] = out.n
	sum["traces"] = out.tr
	sum.Print()
}

func init() { commands["c20"] = cmdC20 }
