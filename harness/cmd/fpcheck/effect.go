//go:build verif

package main

import (
	"encoding/json"
	"errors"
	"fmt"
	"math/rand"
	"strings"

	"github.com/csgura/fp"
)

// ---- C01 / C02: Try / Option / Either programs against EffectSpec.tla ----

type TV = []int

type EFin struct {
	T  string `json:"t"`
	Id int    `json:"id"`
	C  string `json:"c"`
}
type EK struct {
	Id int    `json:"id"`
	C  string `json:"c"`
}
type EStep struct {
	T  string `json:"t"` // val | sup | pure | func
	P  *EProg `json:"p"`
	Id int    `json:"id"`
}
type EProg struct {
	K     string   `json:"k"`
	V     []int    `json:"v"`
	E     string   `json:"e"`
	Name  string   `json:"name"`
	Args  []*EProg `json:"args"`
	Fin   *EFin    `json:"fin"`
	Arg   *EProg   `json:"arg"`
	Ks    []EK     `json:"ks"`
	Xs    []int    `json:"xs"`
	Kk    *EK      `json:"kk"`
	Steps []EStep  `json:"steps"`
	Fid   int      `json:"fid"`
	Mode  string   `json:"mode"`
	Pv    string   `json:"pv"`
	Id    int      `json:"id"`
}

type effRec struct {
	lg     []int
	pulled int // elements pulled from the counting source of FoldM / Traverse (-1: no such source in this program)
	srcId  int // callback id invoked once per pulled element
}

func (r *effRec) log(id int) { r.lg = append(r.lg, id) }

// src is the element source of FoldM / Traverse: it counts what is pulled, so that a fold that keeps draining its source
// after the first failure is visible (the step function is not called again, the result is the same)
func (r *effRec) src(xs []int, stepId int) fp.Iterator[int] {
	r.pulled, r.srcId = 0, stepId
	i := 0
	return fp.MakeIterator(func() bool { return i < len(xs) }, func() int {
		v := xs[i]
		i++
		r.pulled++
		return v
	})
}

func (r *effRec) stepCalls() int {
	n := 0
	for _, id := range r.lg {
		if id == r.srcId {
			n++
		}
	}
	return n
}

func tv(v []int) TV {
	if v == nil {
		return TV{}
	}
	return append(TV{}, v...)
}
func cat(vs ...TV) TV {
	o := TV{}
	for _, v := range vs {
		o = append(o, v...)
	}
	return o
}
func effInc(v TV) TV {
	o := make(TV, len(v))
	for i, x := range v {
		o[i] = x + 1
	}
	return o
}
func effOdd(v TV) bool { return len(v) > 0 && ((v[0]%2)+2)%2 == 1 }

var effErrs = map[string]error{"e1": errors.New("e1"), "e2": errors.New("e2"), "e3": errors.New("e3"), "e4": errors.New("e4"),
	"e5": errors.New("e5"), "e6": errors.New("e6"), "e7": errors.New("e7"), "e8": errors.New("e8"), "e9": errors.New("e9")}
var effErrVal = errors.New("errval")

func effErr(n string) error {
	if e, ok := effErrs[n]; ok {
		return e
	}
	fatal("effect: unknown error name", n)
	return nil
}
func effErrName(err error) string {
	for n, e := range effErrs {
		if err == e {
			return n
		}
	}
	if err == fp.ErrOptionEmpty {
		return "none"
	}
	if pe, ok := err.(interface{ Panic() any }); ok {
		// the panic value itself must be exposed: same dynamic type, same value (for errors: the same error value)
		switch x := pe.Panic().(type) {
		case string:
			return "panic:s:" + x
		case int:
			return fmt.Sprintf("panic:i:%d", x)
		case error:
			if x == effErrVal {
				return "panic:e:errval"
			}
			return "panic:e:?"
		}
		return "panic:?"
	}
	return "?"
}
func effNone(string) fp.Option[TV] { return fp.None[TV]() }
func effConst(ok bool, s string) string {
	return s
}
func effPanicValue(pv string) any {
	switch pv {
	case "i:7":
		return 7
	case "e:errval":
		return effErrVal
	}
	if len(pv) > 2 && pv[:2] == "s:" {
		return pv[2:]
	}
	return pv
}

func (p *EProg) tla() map[string]any {
	if p == nil {
		return nil
	}
	m := map[string]any{"k": p.K, "v": tv(p.V), "e": p.E, "name": p.Name, "xs": tv(p.Xs), "fid": p.Fid, "mode": p.Mode, "pv": p.Pv, "id": p.Id}
	args := []any{}
	for _, a := range p.Args {
		args = append(args, a.tla())
	}
	m["args"] = args
	if p.Fin != nil {
		m["fin"] = map[string]any{"t": p.Fin.T, "id": p.Fin.Id, "c": p.Fin.C}
	} else {
		m["fin"] = map[string]any{"t": "none", "id": 0, "c": "-"}
	}
	if p.Arg != nil {
		m["arg"] = p.Arg.tla()
	}
	ks := []any{}
	for _, k := range p.Ks {
		ks = append(ks, map[string]any{"id": k.Id, "c": k.C})
	}
	m["ks"] = ks
	if p.Kk != nil {
		m["kk"] = map[string]any{"id": p.Kk.Id, "c": p.Kk.C}
	}
	steps := []any{}
	for _, s := range p.Steps {
		steps = append(steps, map[string]any{"t": s.T, "p": s.P.tla(), "id": s.Id})
	}
	m["steps"] = steps
	return m
}

type EffCase struct {
	Kind  string `json:"kind"` // prog | gen | expand
	Monad string `json:"monad"`
	Prog  *EProg `json:"prog,omitempty"`
	Seed  int64  `json:"seed,omitempty"`
	Count int    `json:"count,omitempty"`
	Depth int    `json:"depth,omitempty"`
}

func effRun(out *Out, monad string, p *EProg) {
	cj, _ := json.Marshal(EffCase{Kind: "prog", Monad: monad, Prog: p})
	out.Ev("Init", "monad", monad, "prog", p.tla(), "case", string(cj))
	out.w.Flush() // a fatal stack overflow cannot be recovered: the case that was running must be on disk
	rec := &effRec{lg: []int{}, pulled: -1}
	deadline(out, caseDeadline, func() {
		defer func() {
			if r := recover(); r != nil {
				out.Ev("Panic", "v", fmt.Sprint(r))
			}
		}()
		var ok bool
		var v TV
		var e string
		switch monad {
		case "try":
			ok, v, e = resTry(rec.buildTry(p))
		case "option":
			ok, v, e = resOption(rec.buildOption(p))
		case "either":
			ok, v, e = resEither(rec.buildEither(p))
		default:
			fatal("effect: unknown monad", monad)
		}
		out.Ev("Run", "ok", ok, "v", tv(v), "err", e, "log", rec.lg, "pulled", rec.pulled, "stepcalls", rec.stepCalls())
	})
	out.Ev("End")
}

// ---- names of the library functions per semantic kind ----

func effNames(monad, kind string, n int, fin string) []string {
	methods := monad != "either"
	builders := monad != "either"
	var r []string
	switch kind {
	case "all":
		switch {
		case n == 1 && fin == "pure":
			r = []string{"Map", "Lift", "Method1", "Method2", "FlapMap", "With"}
			if methods {
				r = append(r, "m.Map")
			}
		case n >= 2 && fin == "pure":
			r = []string{fmt.Sprintf("Map%d", n), fmt.Sprintf("LiftA%d", n)}
			if n == 2 {
				r = append(r, "Ap")
			}
		case n >= 2 && fin == "mon":
			r = []string{fmt.Sprintf("FlatMap%d", n), fmt.Sprintf("LiftM%d", n)}
		case fin == "none":
			r = []string{"Sequence", "SequenceIterator"}
			if n == 2 {
				r = append(r, "Zip")
			}
			if n == 3 {
				r = append(r, "Zip3")
			}
		}
	case "chain":
		switch n {
		case 1:
			r = []string{"FlatMap", "LiftM", "Flatten", "FlatMethod1", "FlatFlapMap"}
			if methods {
				r = append(r, "m.FlatMap")
			}
		case 2:
			r = []string{"Compose", "Compose2", "FlatMapFlatMap"}
		case 3, 4, 5:
			r = []string{fmt.Sprintf("Compose%d", n)}
		}
	case "trav":
		r = []string{"Traverse", "TraverseSeq", "TraverseSlice", "TraverseFunc", "TraverseSeqFunc", "TraverseSliceFunc", "FlatMapTraverseSeq", "FlatMapTraverseSlice"}
	case "foldm":
		r = []string{"FoldM"}
	case "supp":
		if n == 2 && fin == "vs" {
			r = append(r, "ApFunc")
		}
		if strings.ContainsAny(fin, "km") {
			// FlatMap / Map stages exist on the ChainN builders only
			if builders && (n == 2 || n == 3) {
				r = append(r, fmt.Sprintf("Chain%d", n))
			}
			break
		}
		if builders && n >= 1 && n <= 4 {
			r = append(r, fmt.Sprintf("Applicative%d", n), fmt.Sprintf("Chain%d", n))
		}
	case "rec":
		switch monad {
		case "try":
			if fin == "okonly" {
				r = []string{"Recover", "RecoverCase", "OrElseGet", "RecoverWith", "RecoverCaseWith", "Or"}
			} else {
				r = []string{"RecoverWith", "RecoverCaseWith", "Or"}
			}
		case "option":
			if fin == "okonly" {
				r = []string{"Recover", "OrElseGet", "Or"}
			} else {
				r = []string{"Or"}
			}
		default:
			if fin == "okonly" {
				r = []string{"Recover", "OrElseGet"}
			}
		}
	case "panic":
		if monad == "try" {
			r = []string{"Of", "Call", "CallUnit"}
		}
	}
	return r
}

var effConts = []string{"kinc", "kdup", "kfail", "kodd", "kid"}
var effOkConts = []string{"kinc", "kdup", "kid"}

// assignNames walks a semantic program (from TLC or the random generator) and picks a library function for every node
func assignNames(r *rand.Rand, monad string, p *EProg) bool {
	if p == nil {
		return true
	}
	var names []string
	switch p.K {
	case "all":
		fin := "none"
		if p.Fin != nil {
			fin = p.Fin.T
		}
		names = effNames(monad, "all", len(p.Args), fin)
	case "chain":
		names = effNames(monad, "chain", len(p.Ks), "")
	case "trav", "foldm":
		names = effNames(monad, p.K, 0, "")
	case "supp":
		pat := ""
		for _, s := range p.Steps {
			pat += s.T[:1]
		}
		names = effNames(monad, "supp", len(p.Steps), pat)
	case "rec":
		fin := ""
		for _, c := range effOkConts {
			if p.Kk != nil && p.Kk.C == c {
				fin = "okonly"
			}
		}
		names = effNames(monad, "rec", 0, fin)
	case "panic":
		names = effNames(monad, "panic", 0, "")
		if p.Mode == "err" && monad == "try" {
			names = []string{"Call", "CallUnit"}
		}
	default:
		names = []string{""}
	}
	if len(names) == 0 {
		return false
	}
	if p.Name == "" {
		p.Name = names[r.Intn(len(names))]
	}
	for _, a := range p.Args {
		if !assignNames(r, monad, a) {
			return false
		}
	}
	if !assignNames(r, monad, p.Arg) {
		return false
	}
	for _, s := range p.Steps {
		if !assignNames(r, monad, s.P) {
			return false
		}
	}
	return true
}

func randEff(r *rand.Rand, monad string, depth int, id *int) *EProg {
	next := func() int { *id++; return *id }
	leaf := func() *EProg {
		switch r.Intn(4) {
		case 0:
			return &EProg{K: "fail", E: []string{"e1", "e4"}[r.Intn(2)]}
		default:
			v := make([]int, r.Intn(3))
			for i := range v {
				v[i] = r.Intn(5)
			}
			return &EProg{K: "unit", V: v}
		}
	}
	if depth <= 0 {
		return leaf()
	}
	sub := func() *EProg { return randEff(r, monad, depth-1, id) }
	for {
		var p *EProg
		switch r.Intn(8) {
		case 0, 1:
			n := 1 + r.Intn(9)
			if r.Intn(2) == 0 {
				n = 1 + r.Intn(3)
			}
			p = &EProg{K: "all"}
			for i := 0; i < n; i++ {
				p.Args = append(p.Args, sub())
			}
			switch r.Intn(3) {
			case 0:
				p.Fin = &EFin{T: "pure", Id: next()}
			case 1:
				if n >= 2 {
					p.Fin = &EFin{T: "mon", Id: next(), C: effConts[r.Intn(len(effConts))]}
				} else {
					p.Fin = &EFin{T: "pure", Id: next()}
				}
			default:
				if n > 6 {
					n = 6
					p.Args = p.Args[:6]
				}
				p.Fin = &EFin{T: "none"}
			}
		case 2, 3:
			p = &EProg{K: "chain", Arg: sub()}
			for i, n := 0, 1+r.Intn(5); i < n; i++ {
				p.Ks = append(p.Ks, EK{Id: next(), C: effConts[r.Intn(len(effConts))]})
			}
		case 4:
			p = &EProg{K: "trav", Kk: &EK{Id: next(), C: effConts[r.Intn(len(effConts))]}}
			for i, n := 0, r.Intn(5); i < n; i++ {
				p.Xs = append(p.Xs, r.Intn(6))
			}
		case 5:
			p = &EProg{K: "foldm", Kk: &EK{Id: next(), C: effConts[r.Intn(len(effConts))]}}
			for i, n := 0, r.Intn(5); i < n; i++ {
				p.Xs = append(p.Xs, r.Intn(6))
			}
		case 6:
			p = &EProg{K: "supp", Fid: next()}
			n := 1 + r.Intn(4)
			if r.Intn(3) == 0 {
				n = 2
			}
			for i := 0; i < n; i++ {
				t := []string{"val", "sup", "pure", "func"}[r.Intn(4)]
				st := EStep{T: t, P: sub(), Id: next()}
				if t == "pure" || t == "func" {
					st.P = &EProg{K: "unit", V: []int{r.Intn(5)}}
				}
				p.Steps = append(p.Steps, st)
			}
			if n == 2 && r.Intn(2) == 0 {
				p.Steps[0].T, p.Steps[1].T = "val", "sup"
			}
		default:
			if monad == "try" && r.Intn(3) == 0 {
				p = &EProg{K: "panic", Id: next(), Mode: []string{"panic", "ok", "err"}[r.Intn(3)], Pv: []string{"s:boom", "i:7", "e:errval"}[r.Intn(3)]}
			} else {
				p = &EProg{K: "rec", Arg: sub(), Kk: &EK{Id: next(), C: effConts[r.Intn(len(effConts))]}}
			}
		}
		if assignNames(r, monad, p) {
			return p
		}
	}
}

func cmdEffect(args []string) {
	if len(args) != 2 {
		fatal("usage: fpcheck effect cases.json out.ndjson")
	}
	var cases []EffCase
	readJSON(args[0], &cases)
	out := NewOut(args[1])
	defer out.Close()
	sum := Summary{}
	for _, c := range cases {
		switch c.Kind {
		case "gen":
			r := rand.New(rand.NewSource(c.Seed))
			for i := 0; i < c.Count; i++ {
				id := 0
				effRun(out, c.Monad, randEff(r, c.Monad, 1+r.Intn(c.Depth), &id))
				out.tr++
				sum.Inc("random_"+c.Monad, 1)
			}
		case "expand":
			// a semantic program exported by TLC: run it once with every library function of the root's kind
			r := rand.New(rand.NewSource(c.Seed))
			probe := *c.Prog
			probe.Name = ""
			var names []string
			{
				p := &probe
				fin := "none"
				if p.Fin != nil {
					fin = p.Fin.T
				}
				switch p.K {
				case "all":
					names = effNames(c.Monad, "all", len(p.Args), fin)
				case "chain":
					names = effNames(c.Monad, "chain", len(p.Ks), "")
				case "trav", "foldm":
					names = effNames(c.Monad, p.K, 0, "")
				case "supp":
					pat := ""
					for _, s := range p.Steps {
						pat += s.T[:1]
					}
					names = effNames(c.Monad, "supp", len(p.Steps), pat)
				case "rec":
					fin := ""
					for _, cc := range effOkConts {
						if p.Kk != nil && p.Kk.C == cc {
							fin = "okonly"
						}
					}
					names = effNames(c.Monad, "rec", 0, fin)
				case "panic":
					names = effNames(c.Monad, "panic", 0, "")
					if p.Mode == "err" && c.Monad == "try" {
						names = []string{"Call", "CallUnit"}
					}
				default:
					names = []string{""}
				}
			}
			for _, nm := range names {
				var q EProg
				b, _ := json.Marshal(c.Prog)
				json.Unmarshal(b, &q)
				q.Name = nm
				if !assignNames(r, c.Monad, &q) {
					continue
				}
				effRun(out, c.Monad, &q)
				out.tr++
				sum.Inc("exported_"+c.Monad, 1)
			}
		default:
			effRun(out, c.Monad, c.Prog)
			out.tr++
			sum.Inc("prog", 1)
		}
	}
	sum["events"] = out.n
	sum["traces"] = out.tr
	sum.Print()
}

func init() { commands["effect"] = cmdEffect }
