//go:build verif

// fpcheck drives the real csgura/fp code for the model-based checks under /verif.
//
//	fpcheck <prop> <cases.json> <out.ndjson>
//
// reads case descriptors, executes each against the library built from /repo and writes one
// ndjson event per observed step (field "tr" = index of the case).  A summary goes to stdout.
package main

import (
	"bufio"
	"encoding/json"
	"fmt"
	"os"
	"runtime/debug"
	"sort"
	"sync"
	"syscall"
	"time"
)

type Ev = map[string]any

type Out struct {
	mu sync.Mutex
	w  *bufio.Writer
	f  *os.File
	tr int
	n  int
}

func NewOut(path string) *Out {
	f, err := os.Create(path)
	if err != nil {
		fatal(err)
	}
	return &Out{w: bufio.NewWriterSize(f, 1<<20), f: f}
}

// Ev writes one event; keys are sorted by encoding/json.
func (o *Out) Ev(e string, kv ...any) {
	m := Ev{"e": e}
	for i := 0; i+1 < len(kv); i += 2 {
		m[kv[i].(string)] = kv[i+1]
	}
	o.mu.Lock()
	defer o.mu.Unlock()
	m["tr"] = o.tr
	b, err := json.Marshal(m)
	if err != nil {
		fatal(err)
	}
	o.w.Write(b)
	o.w.WriteByte('\n')
	o.n++
}

func (o *Out) Close() {
	o.w.Flush()
	o.f.Close()
}

func fatal(v ...any) {
	fmt.Fprintln(os.Stderr, append([]any{"fpcheck:"}, v...)...)
	os.Exit(2)
}

func readJSON(path string, v any) {
	b, err := os.ReadFile(path)
	if err != nil {
		fatal(err)
	}
	if err := json.Unmarshal(b, v); err != nil {
		fatal(path, err)
	}
}

// deadline runs one case.  A case that does not return is reported as a Timeout event (no specification has an action for
// it) and ends the process with exit code 3: a goroutine that spins cannot be stopped any other way.  "Does not return" is
// decided on the CPU the process has consumed, not on wall-clock time, so that a loaded machine cannot turn a slow case into
// an alarm: the case is given up when it has burnt 4 x d of CPU time (it spins), or when the process has consumed next to no
// CPU during a whole window of 3 x d wall-clock seconds (it is blocked).
func deadline(out *Out, d time.Duration, fn func()) {
	done := make(chan struct{})
	go func() {
		defer close(done)
		fn()
	}()
	cpuBudget := 4 * d
	idleWindow := 3 * d
	startCPU := cpuNow()
	winStart, winCPU := time.Now(), startCPU
	tick := time.NewTicker(250 * time.Millisecond)
	defer tick.Stop()
	for {
		select {
		case <-done:
			return
		case <-tick.C:
			now, cpu := time.Now(), cpuNow()
			why := ""
			if cpu-startCPU > cpuBudget {
				why = "spins"
			} else if now.Sub(winStart) >= idleWindow {
				if cpu-winCPU < 300*time.Millisecond {
					why = "blocked"
				}
				winStart, winCPU = now, cpu
			}
			if why != "" {
				out.Ev("Timeout", "after_s", int((cpu - startCPU).Seconds()), "why", why)
				out.Close()
				os.Exit(3)
			}
		}
	}
}

// CPU time (user + system) consumed by this process so far
func cpuNow() time.Duration {
	var ru syscall.Rusage
	if err := syscall.Getrusage(syscall.RUSAGE_SELF, &ru); err != nil {
		return 0
	}
	return time.Duration(ru.Utime.Nano() + ru.Stime.Nano())
}

const caseDeadline = 40 * time.Second

type Summary map[string]any

func (s Summary) Inc(k string, d int) {
	if v, ok := s[k].(int); ok {
		s[k] = v + d
	} else {
		s[k] = d
	}
}

func (s Summary) Print() {
	b, _ := json.Marshal(s)
	fmt.Println(string(b))
}

var commands = map[string]func(args []string){}

func main() {
	debug.SetMaxStack(256 << 20)
	if len(os.Args) < 2 || commands[os.Args[1]] == nil {
		var names []string
		for k := range commands {
			names = append(names, k)
		}
		sort.Strings(names)
		fatal("usage: fpcheck <cmd> args...; commands:", names)
	}
	commands[os.Args[1]](os.Args[2:])
}
