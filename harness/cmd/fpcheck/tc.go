//go:build verif

package main

import (
	"encoding/json"
	"fmt"
	"reflect"
	"sort"
	"sync"
	"unsafe"

	"github.com/csgura/fp"
	"github.com/csgura/fp/iterator"
	"github.com/csgura/fp/lazy"
	"github.com/csgura/fp/list"
	"github.com/csgura/fp/ord"
	"github.com/csgura/fp/seq"
)

// ---- C09 / C10 / C18: typeclass instances of the real library on universes of abstract values ----

// AV is an abstract value (see spec/Typeclass.tla): what a Go value means, with its representation choices
// (nil vs empty, pointer identity) made explicit.
type AV struct {
	T   string `json:"t"`
	N   int    `json:"n"`
	Cs  []int  `json:"cs,omitempty"`
	Nil bool   `json:"nil"`
	V   *AV    `json:"v,omitempty"`
	Xs  []*AV  `json:"xs,omitempty"`
	Id  int    `json:"id"`
	Ks  []int  `json:"ks,omitempty"`
	Cap int    `json:"cap"` // seq: spare capacity behind the elements
	Vs  []*AV  `json:"vs,omitempty"`
}

func (a *AV) tla() map[string]any {
	if a == nil {
		return nil
	}
	m := map[string]any{"t": a.T}
	switch a.T {
	case "int":
		m["n"] = a.N
	case "str", "bytes":
		cs := a.Cs
		if cs == nil {
			cs = []int{}
		}
		m["cs"] = cs
	case "some", "ptr", "wrap":
		m["v"] = a.V.tla()
	case "seq", "tup":
		xs := []any{}
		for _, x := range a.Xs {
			xs = append(xs, x.tla())
		}
		m["xs"] = xs
	case "map":
		ks := a.Ks
		if ks == nil {
			ks = []int{}
		}
		vs := []any{}
		for _, x := range a.Vs {
			vs = append(vs, x.tla())
		}
		m["ks"] = ks
		m["vs"] = vs
	}
	return m
}

type tcWrap[T any] struct{ X T }

type tcPool struct{ m map[int]any }

func (p *tcPool) get(id int) (any, bool) {
	if id == 0 {
		return nil, false
	}
	v, ok := p.m[id]
	return v, ok
}
func (p *tcPool) put(id int, v any) {
	if id != 0 {
		p.m[id] = v
	}
}

func tcString(cs []int) string { return string(tcBytes(cs)) }
func tcBytes(cs []int) []byte {
	b := make([]byte, len(cs))
	for i, c := range cs {
		b[i] = byte(c)
	}
	return b
}
func tcCodes(b []byte) []int {
	r := make([]int, len(b))
	for i, c := range b {
		r[i] = int(c)
	}
	return r
}
func tcKey(k int) string { return fmt.Sprintf("k%d", k) }
func tcKeyNum(k string) int {
	n := 0
	fmt.Sscanf(k, "k%d", &n)
	return n
}
func tcSortedKeys[V any](m map[string]V) []string {
	ks := make([]string, 0, len(m))
	for k := range m {
		ks = append(ks, k)
	}
	sort.Strings(ks)
	return ks
}

type tcRunner interface {
	run(out *Out, id string, what string, vals []*AV)
}

var tcRegistry = map[string]tcRunner{}

type tcType[T any] struct {
	mk    func(*AV, *tcPool) T
	av    func(T) *AV
	eq    fp.Eq[T]
	hash  fp.Hashable[T]
	ord   fp.Ord[T]
	clone fp.Clone[T]
}

func avs(vals []*AV) []any {
	r := []any{}
	for _, v := range vals {
		r = append(r, v.tla())
	}
	return r
}

func (t tcType[T]) run(out *Out, id, what string, vals []*AV) {
	pl := &tcPool{m: map[int]any{}}
	gv := make([]T, len(vals))
	for i, a := range vals {
		gv[i] = t.mk(a, pl)
	}
	n := len(gv)
	defer func() {
		if r := recover(); r != nil {
			out.Ev("Panic", "ty", id, "what", what, "v", fmt.Sprint(r))
		}
	}()
	switch what {
	case "eq":
		if t.eq == nil {
			return
		}
		m := make([][]bool, n)
		for i := range gv {
			m[i] = make([]bool, n)
			for j := range gv {
				m[i][j] = t.eq.Eqv(gv[i], gv[j])
			}
		}
		out.Ev("Eq", "ty", id, "cls", "eq", "vals", avs(vals), "m", m)
		// a sequence against a proper prefix of ITSELF (same backing array): still decided by content and length
		for i := range gv {
			if pre, ok := tcPrefixOf(gv[i]); ok {
				out.Ev("EqAlias", "ty", id, "a", t.av(gv[i]).tla(), "b", t.av(pre).tla(), "ab", t.eq.Eqv(gv[i], pre), "ba", t.eq.Eqv(pre, gv[i]), "hasheq", true)
			}
		}
	case "hash":
		if t.hash == nil {
			return
		}
		m := make([][]bool, n)
		h := make([]uint32, n)
		det := true
		for i := range gv {
			m[i] = make([]bool, n)
			for j := range gv {
				m[i][j] = t.hash.Eqv(gv[i], gv[j])
			}
			h[i] = t.hash.Hash(gv[i])
			if t.hash.Hash(gv[i]) != h[i] || t.hash.Hash(t.mk(vals[i], &tcPool{m: map[int]any{}})) != h[i] {
				det = false
			}
		}
		cls := make([]int, n) // hash equality classes: index of the first value with the same hash
		for i := range h {
			cls[i] = i + 1
			for j := 0; j < i; j++ {
				if h[j] == h[i] {
					cls[i] = j + 1
					break
				}
			}
		}
		out.Ev("Eq", "ty", id, "cls", "hash", "vals", avs(vals), "m", m)
		out.Ev("Hash", "ty", id, "vals", avs(vals), "hc", cls, "det", det)
		for i := range gv {
			if pre, ok := tcPrefixOf(gv[i]); ok {
				out.Ev("EqAlias", "ty", id, "a", t.av(gv[i]).tla(), "b", t.av(pre).tla(), "ab", t.hash.Eqv(gv[i], pre), "ba", t.hash.Eqv(pre, gv[i]),
					"hasheq", t.hash.Hash(gv[i]) == t.hash.Hash(pre))
			}
		}
	case "ord":
		if t.ord == nil {
			return
		}
		mat := func(f func(a, b T) bool) [][]bool {
			m := make([][]bool, n)
			for i := range gv {
				m[i] = make([]bool, n)
				for j := range gv {
					m[i][j] = f(gv[i], gv[j])
				}
			}
			return m
		}
		cmp := make([][]int, n)
		mn := make([][]int, n)
		mx := make([][]int, n)
		which := func(r, a, b T) int {
			ea, eb := t.ord.Eqv(r, a), t.ord.Eqv(r, b)
			switch {
			case ea && eb:
				return 3
			case ea:
				return 1
			case eb:
				return 2
			}
			return 0
		}
		for i := range gv {
			cmp[i], mn[i], mx[i] = make([]int, n), make([]int, n), make([]int, n)
			for j := range gv {
				c := t.ord.Compare(gv[i], gv[j])
				if c < 0 {
					c = -1
				} else if c > 0 {
					c = 1
				}
				cmp[i][j] = c
				mn[i][j] = which(t.ord.Min(gv[i], gv[j]), gv[i], gv[j])
				mx[i][j] = which(t.ord.Max(gv[i], gv[j]), gv[i], gv[j])
			}
		}
		rev := t.ord.Reversed()
		thn := t.ord.ThenComparing(rev)
		thn2 := rev.ThenComparing(t.ord)
		out.Ev("Ord", "ty", id, "vals", avs(vals), "less", mat(t.ord.Less), "lesseq", mat(t.ord.LessEq), "eqv", mat(t.ord.Eqv), "cmp", cmp,
			"min", mn, "max", mx, "rev", mat(rev.Less), "thn", mat(thn.Less), "thn2", mat(thn2.Less))
	case "clone":
		if t.clone == nil {
			return
		}
		for i := range gv {
			// a fresh value per test: pointer identities are shared inside one value only
			orig := t.mk(vals[i], &tcPool{m: map[int]any{}})
			before := t.av(orig)
			cl := t.clone.Clone(orig)
			shared := tcShared(reflect.ValueOf(&orig).Elem(), reflect.ValueOf(&cl).Elem())
			clav := t.av(cl)
			// mutate every mutable cell reachable from the clone, then look at the original again
			tcMutate(reflect.ValueOf(&cl).Elem())
			after := t.av(orig)
			// and the other way round, on a second clone
			cl2 := t.clone.Clone(orig)
			cl2av := t.av(cl2)
			tcMutate(reflect.ValueOf(&orig).Elem())
			after2 := t.av(cl2)
			out.Ev("Clone", "ty", id, "val", vals[i].tla(), "before", before.tla(), "cl", clav.tla(), "shared", shared, "after", after.tla(),
				"cl2", cl2av.tla(), "after2", after2.tla())
		}
		// the same instance used by several goroutines on the same value at once: every clone is still equal to the original and
		// no two clones share storage (an instance that keeps per-instance state between calls would hand out half-built copies)
		if len(gv) > 0 {
			const G, R = 8, 120
			for _, i := range []int{len(gv) - 1, len(gv) / 2} {
				orig := t.mk(vals[i], &tcPool{m: map[int]any{}})
				want := t.av(orig).tla()
				wantJSON, _ := json.Marshal(want)
				var wg sync.WaitGroup
				start := make(chan struct{})
				last := make([]T, G)
				bad := make([]int, G)
				for g := 0; g < G; g++ {
					wg.Add(1)
					go func(g int) {
						defer wg.Done()
						defer func() {
							if r := recover(); r != nil {
								bad[g] += 1000
							}
						}()
						<-start
						for r := 0; r < R; r++ {
							cl := t.clone.Clone(orig)
							got, _ := json.Marshal(t.av(cl).tla())
							if string(got) != string(wantJSON) {
								bad[g]++
							}
							last[g] = cl
						}
					}(g)
				}
				close(start)
				wg.Wait()
				nbad, pairs := 0, 0
				for g := 0; g < G; g++ {
					nbad += bad[g]
					for h := g + 1; h < G; h++ {
						if tcShared(reflect.ValueOf(&last[g]).Elem(), reflect.ValueOf(&last[h]).Elem()) > 0 {
							pairs++
						}
					}
				}
				out.Ev("CloneConc", "ty", id, "val", vals[i].tla(), "goroutines", G, "rounds", R, "bad", nbad, "sharedpairs", pairs)
			}
		}
	}
}

// ---- heap walking through reflection (private fields included) ----

func tcAccessible(v reflect.Value) reflect.Value {
	if v.CanAddr() && !v.CanSet() {
		return reflect.NewAt(v.Type(), unsafe.Pointer(v.UnsafeAddr())).Elem()
	}
	return v
}

func tcWalk(v reflect.Value, visit func(kind string, addr uintptr, v reflect.Value), seen map[uintptr]bool) {
	v = tcAccessible(v)
	switch v.Kind() {
	case reflect.Ptr:
		if v.IsNil() {
			return
		}
		a := v.Pointer()
		visit("ptr", a, v)
		if seen[a] {
			return
		}
		seen[a] = true
		tcWalk(v.Elem(), visit, seen)
	case reflect.Slice:
		if v.IsNil() {
			return
		}
		if v.Cap() > 0 {
			visit("slice", v.Pointer(), v)
		}
		for i := 0; i < v.Len(); i++ {
			tcWalk(v.Index(i), visit, seen)
		}
	case reflect.Map:
		if v.IsNil() {
			return
		}
		visit("map", v.Pointer(), v)
		it := v.MapRange()
		for it.Next() {
			// map values are not addressable: copy to an addressable temporary for the walk below
			tmp := reflect.New(it.Value().Type()).Elem()
			tmp.Set(it.Value())
			tcWalk(tmp, visit, seen)
		}
	case reflect.Struct:
		for i := 0; i < v.NumField(); i++ {
			tcWalk(v.Field(i), visit, seen)
		}
	case reflect.Interface:
		if !v.IsNil() {
			tmp := reflect.New(v.Elem().Type()).Elem()
			tmp.Set(v.Elem())
			tcWalk(tmp, visit, seen)
		}
	case reflect.Array:
		for i := 0; i < v.Len(); i++ {
			tcWalk(v.Index(i), visit, seen)
		}
	}
}

// tcShared counts the mutable storage cells (pointer targets, slice arrays, maps) reachable from both values
func tcShared(a, b reflect.Value) int {
	sa := map[uintptr]bool{}
	tcWalk(a, func(_ string, addr uintptr, _ reflect.Value) { sa[addr] = true }, map[uintptr]bool{})
	n := 0
	counted := map[uintptr]bool{}
	tcWalk(b, func(_ string, addr uintptr, _ reflect.Value) {
		if sa[addr] && !counted[addr] {
			counted[addr] = true
			n++
		}
	}, map[uintptr]bool{})
	return n
}

// tcMutate overwrites every mutable cell reachable from v: slice elements and pointer targets are zeroed (ints set to
// -77), map entries replaced
func tcMutate(v reflect.Value) {
	var cells []reflect.Value
	tcWalk(v, func(kind string, _ uintptr, c reflect.Value) { cells = append(cells, c) }, map[uintptr]bool{})
	poison := func(x reflect.Value) {
		x = tcAccessible(x)
		if !x.CanSet() {
			return
		}
		switch x.Kind() {
		case reflect.Int:
			x.SetInt(-77)
		case reflect.String:
			x.SetString("\x7fmut")
		case reflect.Uint8:
			x.SetUint(0x7f)
		default:
			x.Set(reflect.Zero(x.Type()))
		}
	}
	// innermost cells first, so that every cell is still reachable when its turn comes
	for i := len(cells) - 1; i >= 0; i-- {
		c := cells[i]
		if (c.Kind() == reflect.Ptr || c.Kind() == reflect.Map || c.Kind() == reflect.Slice) && c.IsNil() {
			continue
		}
		switch c.Kind() {
		case reflect.Ptr:
			poison(c.Elem())
		case reflect.Slice:
			// the whole backing array, spare capacity included: an append through the other side would land there
			full := c.Slice3(0, c.Cap(), c.Cap())
			for i := 0; i < full.Len(); i++ {
				poison(full.Index(i))
			}
		case reflect.Map:
			for _, k := range c.MapKeys() {
				c.SetMapIndex(k, reflect.Zero(c.Type().Elem()))
			}
			if c.Type().Key().Kind() == reflect.String {
				c.SetMapIndex(reflect.ValueOf("k99").Convert(c.Type().Key()), reflect.Zero(c.Type().Elem()))
			}
		}
	}
}

// ---- sorting (C10): keyed records, ties distinguishable by payload ----

type tcRec = fp.Tuple2[int, int]

func tcSort(out *Out, in [][2]int) {
	recs := make([]tcRec, len(in))
	for i, p := range in {
		recs[i] = tcRec{I1: p[0], I2: p[1]}
	}
	o := ord.ContraMap(ord.Given[int](), func(r tcRec) int { return r.I1 })
	pairs := func(rs []tcRec) [][2]int {
		r := [][2]int{}
		for _, x := range rs {
			r = append(r, [2]int{x.I1, x.I2})
		}
		return r
	}
	optp := func(o fp.Option[tcRec]) [][2]int {
		if o.IsDefined() {
			return [][2]int{{o.Get().I1, o.Get().I2}}
		}
		return [][2]int{}
	}
	orig := append([]tcRec(nil), recs...)
	for _, impl := range []string{"seq", "iterator", "list"} {
		func() {
			defer func() {
				if r := recover(); r != nil {
					out.Ev("Panic", "ty", "sort", "what", impl, "v", fmt.Sprint(r))
				}
			}()
			var sorted []tcRec
			var mn, mx fp.Option[tcRec]
			switch impl {
			case "seq":
				sorted = seq.Sort(fp.Seq[tcRec](recs), o)
				mn, mx = seq.Min(fp.Seq[tcRec](recs), o), seq.Max(fp.Seq[tcRec](recs), o)
			case "iterator":
				sorted = iterator.Sort(iterator.FromSeq(fp.Seq[tcRec](recs)), o)
				mn, mx = iterator.Min(iterator.FromSeq(fp.Seq[tcRec](recs)), o), iterator.Max(iterator.FromSeq(fp.Seq[tcRec](recs)), o)
			case "list":
				sorted = list.Sort(list.FromSeq(fp.Seq[tcRec](recs)), o)
				mn, mx = list.Min(list.FromSeq(fp.Seq[tcRec](recs)), o), list.Max(list.FromSeq(fp.Seq[tcRec](recs)), o)
			}
			out.Ev("Sort", "impl", impl, "in", pairs(orig), "out", pairs(sorted), "min", optp(mn), "max", optp(mx), "inafter", pairs(recs))
		}()
	}
}

// a proper prefix of a slice-kinded value that shares its backing array (false for other kinds and short values)
func tcPrefixOf[T any](v T) (T, bool) {
	rv := reflect.ValueOf(&v).Elem()
	if rv.Kind() != reflect.Slice || rv.Len() < 2 {
		return v, false
	}
	var out T
	reflect.ValueOf(&out).Elem().Set(rv.Slice(0, rv.Len()-1))
	return out, true
}

// the same three implementations over a nillable element type: *int under ord.Ptr (nil goes first); key -1 stands for nil
func tcSortPtr(out *Out, in [][2]int) {
	recs := make([]*int, len(in))
	for i, p := range in {
		if p[0] >= 0 {
			v := p[0]
			recs[i] = &v
		}
	}
	o := ord.Ptr(lazy.Done[fp.Ord[int]](ord.Given[int]()))
	key := func(p *int) int {
		if p == nil {
			return -1
		}
		return *p
	}
	pairs := func(rs []*int) [][2]int {
		r := [][2]int{}
		for _, x := range rs {
			r = append(r, [2]int{key(x), 0})
		}
		return r
	}
	optp := func(o fp.Option[*int]) [][2]int {
		if o.IsDefined() {
			return [][2]int{{key(o.Get()), 0}}
		}
		return [][2]int{}
	}
	orig := append([]*int(nil), recs...)
	for _, impl := range []string{"seq", "iterator", "list"} {
		func() {
			defer func() {
				if r := recover(); r != nil {
					out.Ev("Panic", "ty", "sortptr", "what", impl, "v", fmt.Sprint(r))
				}
			}()
			var sorted []*int
			var mn, mx fp.Option[*int]
			switch impl {
			case "seq":
				sorted = seq.Sort(fp.Seq[*int](recs), o)
				mn, mx = seq.Min(fp.Seq[*int](recs), o), seq.Max(fp.Seq[*int](recs), o)
			case "iterator":
				sorted = iterator.Sort(iterator.FromSeq(fp.Seq[*int](recs)), o)
				mn, mx = iterator.Min(iterator.FromSeq(fp.Seq[*int](recs)), o), iterator.Max(iterator.FromSeq(fp.Seq[*int](recs)), o)
			case "list":
				sorted = list.Sort(list.FromSeq(fp.Seq[*int](recs)), o)
				mn, mx = list.Min(list.FromSeq(fp.Seq[*int](recs)), o), list.Max(list.FromSeq(fp.Seq[*int](recs)), o)
			}
			out.Ev("Sort", "impl", impl+"/ptr", "in", pairs(orig), "out", pairs(sorted), "min", optp(mn), "max", optp(mx), "inafter", pairs(recs))
		}()
	}
}

type TcCase struct {
	Ty   string   `json:"ty"`
	What string   `json:"what"` // eq | hash | ord | clone | sort
	Vals []*AV    `json:"vals"`
	In   [][2]int `json:"in"`
}

func cmdTc(args []string) {
	if len(args) != 2 {
		fatal("usage: fpcheck tc cases.json out.ndjson")
	}
	if args[0] == "types" {
		ids := []string{}
		for k := range tcRegistry {
			ids = append(ids, k)
		}
		sort.Strings(ids)
		for _, k := range ids {
			fmt.Println(k)
		}
		return
	}
	var cases []TcCase
	readJSON(args[0], &cases)
	out := NewOut(args[1])
	defer out.Close()
	sum := Summary{}
	for _, c := range cases {
		c := c
		out.Ev("Case", "ty", c.Ty, "what", c.What)
		deadline(out, caseDeadline, func() {
			if c.What == "sort" {
				tcSort(out, c.In)
			} else if c.What == "sortptr" {
				tcSortPtr(out, c.In)
			} else {
				r, ok := tcRegistry[c.Ty]
				if !ok {
					fatal("tc: unknown type", c.Ty)
				}
				r.run(out, c.Ty, c.What, c.Vals)
			}
		})
		out.tr++
		sum.Inc(c.What, 1)
	}
	sum["events"] = out.n
	sum["traces"] = out.tr
	sum.Print()
}

func init() { commands["tc"] = cmdTc }
