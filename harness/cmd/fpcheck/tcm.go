//go:build verif

package main

import (
	"fmt"

	"github.com/csgura/fp"
	"github.com/csgura/fp/hash"
	"github.com/csgura/fp/hlist"
	"github.com/csgura/fp/immutable"
	"github.com/csgura/fp/iterator"
	"github.com/csgura/fp/lazy"
	"github.com/csgura/fp/list"
	"github.com/csgura/fp/monoid"
	"github.com/csgura/fp/semigroup"
	"github.com/csgura/fp/seq"
)

// ---- C11: Monoid / Semigroup instances of the real library on universes of abstract values ----

type tcmRunner interface {
	run(out *Out, id string, vals []*AV, seqs [][]*AV)
}

var tcmRegistry = map[string]tcmRunner{}

type tcMonoid[T any] struct {
	mk func(*AV) T
	av func(T) *AV
	m  fp.Monoid[T]    // nil for a bare semigroup
	sg fp.Semigroup[T] // used when m is nil
}

func (t tcMonoid[T]) run(out *Out, id string, vals []*AV, seqs [][]*AV) {
	defer func() {
		if r := recover(); r != nil {
			out.Ev("Panic", "ty", id, "what", "monoid", "v", fmt.Sprint(r))
		}
	}()
	gv := make([]T, len(vals))
	for i, a := range vals {
		gv[i] = t.mk(a)
	}
	var sg fp.Semigroup[T] = t.sg
	if t.m != nil {
		sg = t.m
	}
	tab := make([][]any, len(gv))
	for i := range gv {
		tab[i] = make([]any, len(gv))
		for j := range gv {
			tab[i][j] = t.av(sg.Combine(t.mk(vals[i]), t.mk(vals[j]))).tla()
		}
	}
	// associativity is checked on the real instance directly: (a+b)+c and a+(b+c) for all triples
	n := len(gv)
	lhs := make([][][]any, n)
	rhs := make([][][]any, n)
	for i := 0; i < n; i++ {
		lhs[i], rhs[i] = make([][]any, n), make([][]any, n)
		for j := 0; j < n; j++ {
			lhs[i][j], rhs[i][j] = make([]any, n), make([]any, n)
			for k := 0; k < n; k++ {
				lhs[i][j][k] = t.av(sg.Combine(sg.Combine(t.mk(vals[i]), t.mk(vals[j])), t.mk(vals[k]))).tla()
				rhs[i][j][k] = t.av(sg.Combine(t.mk(vals[i]), sg.Combine(t.mk(vals[j]), t.mk(vals[k])))).tla()
			}
		}
	}
	// persistence of operands and results: combining x again must not change an earlier result or x itself
	for i := 0; i < n; i++ {
		for j := 0; j < n && j < 3; j++ {
			x := t.mk(vals[i])
			xb := t.av(x).tla()
			r1 := sg.Combine(x, t.mk(vals[j]))
			b1 := t.av(r1).tla()
			_ = sg.Combine(x, t.mk(vals[(j+1)%n]))
			_ = sg.Combine(r1, t.mk(vals[(j+2)%n]))
			out.Ev("Alias", "mx", id, "xbefore", xb, "xafter", t.av(x).tla(), "rbefore", b1, "rafter", t.av(r1).tla())
		}
	}
	if t.m != nil {
		le, re := make([]any, n), make([]any, n)
		for i := range gv {
			le[i] = t.av(t.m.Combine(t.m.Empty(), t.mk(vals[i]))).tla()
			re[i] = t.av(t.m.Combine(t.mk(vals[i]), t.m.Empty())).tla()
		}
		out.Ev("Monoid", "mx", id, "vals", avs(vals), "hasempty", true, "empty", t.av(t.m.Empty()).tla(), "tab", tab, "lhs", lhs, "rhs", rhs, "le", le, "re", re)
		for _, s := range seqs {
			xs := make([]T, len(s))
			for i, a := range s {
				xs[i] = t.mk(a)
			}
			mkxs := func() []T {
				r := make([]T, len(s))
				for i, a := range s {
					r[i] = t.mk(a)
				}
				return r
			}
			id1 := func(x T) T { return x }
			res := map[string]any{
				"seq.Reduce":      t.av(seq.Reduce(fp.Seq[T](mkxs()), t.m)).tla(),
				"iterator.Reduce": t.av(iterator.Reduce(iterator.FromSeq(fp.Seq[T](mkxs())), t.m)).tla(),
				"list.Reduce":     t.av(list.Reduce(list.FromSeq(fp.Seq[T](mkxs())), t.m)).tla(),
				"seq.FoldMap":     t.av(seq.FoldMap(fp.Seq[T](mkxs()), t.m, id1)).tla(),
				"list.FoldMap":    t.av(list.FoldMap(list.FromSeq(fp.Seq[T](mkxs())), t.m, id1)).tla(),
			}
			for impl, r := range res {
				out.Ev("Reduce", "mx", id, "impl", impl, "xs", avs(s), "out", r)
			}
			_ = xs
		}
	} else {
		out.Ev("Monoid", "mx", id, "vals", avs(vals), "hasempty", false, "empty", map[string]any{"t": "unit"}, "tab", tab, "lhs", lhs, "rhs", rhs, "le", []any{}, "re", []any{})
	}
}

// endomorphisms of int, by name; compared extensionally on a test domain
var tcFnDomain = []int{0, 1, 2, -3}

func tcFn(name string) func(int) int {
	switch name {
	case "inc":
		return func(x int) int { return x + 1 }
	case "dbl":
		return func(x int) int { return 2 * x }
	case "neg":
		return func(x int) int { return -x }
	case "sq":
		return func(x int) int { return x * x }
	}
	return func(x int) int { return x }
}
func mkFn(a *AV) fp.Endo[int] { return fp.Endo[int](tcFn(tcString(a.Cs))) }
func avFn(f fp.Endo[int]) *AV {
	r := &AV{T: "seq", Xs: []*AV{}}
	for _, x := range tcFnDomain {
		r.Xs = append(r.Xs, &AV{T: "int", N: f(x)})
	}
	return r
}

func mkBool(a *AV) bool { return a.N == 1 }
func avBool(b bool) *AV {
	if b {
		return &AV{T: "int", N: 1}
	}
	return &AV{T: "int", N: 0}
}
func mkTry(a *AV) fp.Try[string] {
	if a.T == "wrap" {
		return fp.Failure[string](effErr(fmt.Sprintf("e%d", a.V.N)))
	}
	return fp.Success(mk_str(a.V, nil))
}
func avTry(t fp.Try[string]) *AV {
	if t.IsSuccess() {
		return &AV{T: "some", V: av_str(t.Get())}
	}
	n := 0
	fmt.Sscanf(effErrName(t.Failed().Get()), "e%d", &n)
	return &AV{T: "wrap", V: &AV{T: "int", N: n}} // a failure: which error
}
func mkSet(a *AV) fp.Set[int] {
	s := immutable.Set(hash.Number[int]())
	for _, k := range a.Ks {
		s = s.Incl(k)
	}
	return s
}
func avSet(s fp.Set[int]) *AV {
	r := &AV{T: "map", Ks: []int{}, Vs: []*AV{}}
	for k := 0; k < 64; k++ {
		if s.Contains(k) {
			r.Ks = append(r.Ks, k)
			r.Vs = append(r.Vs, &AV{T: "int", N: 1})
		}
	}
	return r
}
func np[T any](f func(*AV, *tcPool) T) func(*AV) T {
	return func(a *AV) T { return f(a, &tcPool{m: map[int]any{}}) }
}

func init() {
	sum, str := monoid.Sum[int](), monoid.String
	tcmRegistry["sum"] = tcMonoid[int]{mk: np(mk_int), av: av_int, m: sum}
	tcmRegistry["product"] = tcMonoid[int]{mk: np(mk_int), av: av_int, m: monoid.Product[int]()}
	tcmRegistry["string"] = tcMonoid[string]{mk: np(mk_str), av: av_str, m: str}
	tcmRegistry["any"] = tcMonoid[bool]{mk: mkBool, av: avBool, m: monoid.Any}
	tcmRegistry["all"] = tcMonoid[bool]{mk: mkBool, av: avBool, m: monoid.All}
	tcmRegistry["unit"] = tcMonoid[fp.Unit]{mk: func(*AV) fp.Unit { return fp.Unit{} }, av: func(fp.Unit) *AV { return &AV{T: "int", N: 0} }, m: monoid.Unit}
	tcmRegistry["option(sum)"] = tcMonoid[fp.Option[int]]{mk: np(mk_opt_int_), av: av_opt_int_, m: monoid.Option(sum)}
	tcmRegistry["option(string)"] = tcMonoid[fp.Option[string]]{mk: np(mk_opt_str_), av: av_opt_str_, m: monoid.Option(str)}
	tcmRegistry["try(string)"] = tcMonoid[fp.Try[string]]{mk: mkTry, av: avTry, m: monoid.Try(str)}
	tcmRegistry["mergeseq"] = tcMonoid[fp.Seq[int]]{mk: np(mk_seq_int_), av: av_seq_int_, m: monoid.MergeSeq[int]()}
	tcmRegistry["mergeslice"] = tcMonoid[[]int]{mk: np(mk_slice_int_), av: av_slice_int_, m: monoid.MergeSlice[int]()}
	tcmRegistry["mergegomap"] = tcMonoid[map[string]int]{mk: np(mk_gomap_int_), av: av_gomap_int_, m: monoid.MergeGoMap[string, int]()}
	tcmRegistry["mergemap"] = tcMonoid[fp.Map[int, int]]{mk: np(mk_fpmap_int_), av: av_fpmap_int_, m: monoid.MergeMap[int, int]()}
	collide := hash.New(hash.Number[int](), func(k int) uint32 { return uint32(k % 3) })
	tcmRegistry["mergemap#collide"] = tcMonoid[fp.Map[int, int]]{mk: func(a *AV) fp.Map[int, int] {
		r := immutable.Map[int, int](collide)
		for i, kk := range a.Ks {
			r = r.Updated(kk, mk_int(a.Vs[i], nil))
		}
		return r
	}, av: av_fpmap_int_, m: monoid.MergeMap[int, int]()}
	tcmRegistry["mergeset"] = tcMonoid[fp.Set[int]]{mk: mkSet, av: avSet, m: monoid.MergeSet[int]()}
	tcmRegistry["ptr(sum)"] = tcMonoid[*int]{mk: np(mk_ptr_int_), av: av_ptr_int_, m: monoid.Ptr(lazy.Done(sum))}
	tcmRegistry["ptr(string)"] = tcMonoid[*string]{mk: np(mk_ptr_str_), av: av_ptr_str_, m: monoid.Ptr(lazy.Done(str))}
	tcmRegistry["tuple(sum,string)"] = tcMonoid[fp.Tuple2[int, string]]{mk: np(mk_tup_int_str_), av: av_tup_int_str_, m: monoid.Tuple2(sum, str)}
	tcmRegistry["hcons(sum,string)"] = tcMonoid[hlist.Cons[int, hlist.Cons[string, hlist.Nil]]]{mk: np(mk_hl_int_str_), av: av_hl_int_str_,
		m: monoid.HCons(sum, monoid.HCons(str, monoid.HNil))}
	tcmRegistry["dual(string)"] = tcMonoid[fp.Dual[string]]{mk: func(a *AV) fp.Dual[string] { return fp.Dual[string]{GetDual: mk_str(a, nil)} },
		av: func(d fp.Dual[string]) *AV { return av_str(d.GetDual) }, m: monoid.Dual(str)}
	tcmRegistry["endo"] = tcMonoid[fp.Endo[int]]{mk: mkFn, av: avFn, m: monoid.Endo[int]()}
	tcmRegistry["dual(endo)"] = tcMonoid[fp.Dual[fp.Endo[int]]]{mk: func(a *AV) fp.Dual[fp.Endo[int]] { return fp.Dual[fp.Endo[int]]{GetDual: mkFn(a)} },
		av: func(d fp.Dual[fp.Endo[int]]) *AV { return avFn(d.GetDual) }, m: monoid.Dual(monoid.Endo[int]())}
	tcmRegistry["eval(string)"] = tcMonoid[lazy.Eval[string]]{mk: func(a *AV) lazy.Eval[string] { s := mk_str(a, nil); return lazy.Call(func() string { return s }) },
		av: func(e lazy.Eval[string]) *AV { return av_str(e.Get()) }, m: monoid.Eval(str)}
	tcmRegistry["imap(sum)"] = tcMonoid[tcWrap[int]]{mk: np(mk_wrap_int_), av: av_wrap_int_,
		m: monoid.IMap(sum, func(x int) tcWrap[int] { return tcWrap[int]{X: x} }, func(w tcWrap[int]) int { return w.X })}
	// the semigroup package
	tcmRegistry["sg.sum"] = tcMonoid[int]{mk: np(mk_int), av: av_int, sg: semigroup.Sum[int]()}
	tcmRegistry["sg.any"] = tcMonoid[bool]{mk: mkBool, av: avBool, sg: semigroup.Any}
	tcmRegistry["sg.all"] = tcMonoid[bool]{mk: mkBool, av: avBool, sg: semigroup.All}
	tcmRegistry["sg.endo"] = tcMonoid[fp.Endo[int]]{mk: mkFn, av: avFn, sg: semigroup.Endo[int]()}
	tcmRegistry["sg.dual(string)"] = tcMonoid[fp.Dual[string]]{mk: func(a *AV) fp.Dual[string] { return fp.Dual[string]{GetDual: mk_str(a, nil)} },
		av: func(d fp.Dual[string]) *AV { return av_str(d.GetDual) }, sg: semigroup.Dual[string](str)}
	tcmRegistry["sg.eval(string)"] = tcMonoid[lazy.Eval[string]]{mk: func(a *AV) lazy.Eval[string] { s := mk_str(a, nil); return lazy.Done(s) },
		av: func(e lazy.Eval[string]) *AV { return av_str(e.Get()) }, sg: semigroup.Eval[string](str)}
	tcmRegistry["sg.ptr(sum)"] = tcMonoid[*int]{mk: np(mk_ptr_int_), av: av_ptr_int_, sg: semigroup.Ptr(lazy.Done[fp.Semigroup[int]](semigroup.Sum[int]()))}
	tcmRegistry["sg.option(string)"] = tcMonoid[fp.Option[string]]{mk: np(mk_opt_str_), av: av_opt_str_, sg: semigroup.Option[string](str)}
	tcmRegistry["sg.imap(sum)"] = tcMonoid[tcWrap[int]]{mk: np(mk_wrap_int_), av: av_wrap_int_,
		sg: semigroup.IMap(semigroup.Sum[int](), func(x int) tcWrap[int] { return tcWrap[int]{X: x} }, func(w tcWrap[int]) int { return w.X })}
}

type TcmCase struct {
	Mx   string  `json:"mx"`
	Vals []*AV   `json:"vals"`
	Seqs [][]*AV `json:"seqs"`
}

func cmdTcm(args []string) {
	if len(args) != 2 {
		fatal("usage: fpcheck tcm cases.json out.ndjson")
	}
	var cases []TcmCase
	readJSON(args[0], &cases)
	out := NewOut(args[1])
	defer out.Close()
	sum := Summary{}
	for _, c := range cases {
		r, ok := tcmRegistry[c.Mx]
		if !ok {
			fatal("tcm: unknown monoid", c.Mx)
		}
		c := c
		out.Ev("Case", "ty", c.Mx, "what", "monoid")
		deadline(out, caseDeadline, func() { r.run(out, c.Mx, c.Vals, c.Seqs) })
		out.tr++
		sum.Inc("monoids", 1)
	}
	sum["events"] = out.n
	sum["traces"] = out.tr
	sum.Print()
}

func init() { commands["tcm"] = cmdTcm }
