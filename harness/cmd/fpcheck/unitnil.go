//go:build verif

package main

import (
	"github.com/csgura/fp"
	"github.com/csgura/fp/either"
	"github.com/csgura/fp/option"
	"github.com/csgura/fp/try"
)

// ---- C01: the unit of each monad is total - also on nil payloads of nillable types ----
//
// EffectSpec!U(x) is a success for EVERY x.  The programs of the effect harness carry []int payloads that are never nil, so
// the nil values of slice, pointer, map, interface and func types are probed here: Pure / Some / Success / Right of nil is
// defined, Map to nil stays defined, FlatMap(Pure(nil), f) calls f with nil (left identity), Map2 / Zip of units are defined.

func unitNilProbe[T any](out *Out, kind string, nilv T, isNil func(T) bool) {
	ev := func(monad, fn string, ok bool, called bool) {
		out.Ev("UnitNil", "monad", monad, "fn", fn, "kind", kind, "ok", ok, "called", called)
		out.tr++
	}
	guard := func(monad, fn string, body func() (bool, bool)) {
		defer func() {
			if r := recover(); r != nil {
				ev(monad, fn, false, false)
			}
		}()
		ok, called := body()
		ev(monad, fn, ok, called)
	}
	// option
	guard("option", "Pure", func() (bool, bool) { return option.Pure(nilv).IsDefined(), true })
	guard("option", "Some", func() (bool, bool) { return option.Some(nilv).IsDefined(), true })
	guard("option", "fp.Some", func() (bool, bool) { return fp.Some(nilv).IsDefined(), true })
	guard("option", "Map", func() (bool, bool) {
		called := false
		r := option.Map(option.Some(1), func(int) T { called = true; return nilv })
		return r.IsDefined() && isNil(r.Get()), called
	})
	guard("option", "FlatMapPure", func() (bool, bool) {
		called := false
		r := option.FlatMap(option.Pure(nilv), func(v T) fp.Option[int] { called = isNil(v); return option.Some(7) })
		return r.IsDefined() && r.Get() == 7, called
	})
	guard("option", "Map2", func() (bool, bool) {
		called := false
		r := option.Map2(option.Pure(nilv), option.Pure(nilv), func(a, b T) T { called = isNil(a) && isNil(b); return nilv })
		return r.IsDefined(), called
	})
	guard("option", "Zip", func() (bool, bool) { return option.Zip(option.Pure(nilv), option.Pure(1)).IsDefined(), true })
	// try
	guard("try", "Pure", func() (bool, bool) { return try.Pure(nilv).IsSuccess(), true })
	guard("try", "Success", func() (bool, bool) { return try.Success(nilv).IsSuccess(), true })
	guard("try", "Map", func() (bool, bool) {
		called := false
		r := try.Map(try.Success(1), func(int) T { called = true; return nilv })
		return r.IsSuccess() && isNil(r.Get()), called
	})
	guard("try", "FlatMapPure", func() (bool, bool) {
		called := false
		r := try.FlatMap(try.Pure(nilv), func(v T) fp.Try[int] { called = isNil(v); return try.Success(7) })
		return r.IsSuccess() && r.Get() == 7, called
	})
	guard("try", "Map2", func() (bool, bool) {
		called := false
		r := try.Map2(try.Pure(nilv), try.Pure(nilv), func(a, b T) T { called = isNil(a) && isNil(b); return nilv })
		return r.IsSuccess(), called
	})
	guard("try", "Zip", func() (bool, bool) { return try.Zip(try.Pure(nilv), try.Pure(1)).IsSuccess(), true })
	// either
	guard("either", "Pure", func() (bool, bool) { return either.Pure[string](nilv).IsRight(), true })
	guard("either", "Right", func() (bool, bool) { return either.Right[string](nilv).IsRight(), true })
	guard("either", "Map", func() (bool, bool) {
		called := false
		r := either.Map(either.Right[string](1), func(int) T { called = true; return nilv })
		return r.IsRight() && isNil(r.Get()), called
	})
	guard("either", "FlatMapPure", func() (bool, bool) {
		called := false
		r := either.FlatMap(either.Pure[string](nilv), func(v T) fp.Either[string, int] { called = isNil(v); return either.Right[string](7) })
		return r.IsRight() && r.Get() == 7, called
	})
	guard("either", "Map2", func() (bool, bool) {
		called := false
		r := either.Map2(either.Pure[string](nilv), either.Pure[string](nilv), func(a, b T) T { called = isNil(a) && isNil(b); return nilv })
		return r.IsRight(), called
	})
	guard("either", "Zip", func() (bool, bool) { return either.Zip(either.Pure[string](nilv), either.Pure[string](1)).IsRight(), true })
}

func cmdUnitNil(args []string) {
	if len(args) < 2 {
		fatal("usage: fpcheck unitnil cases.json out.ndjson")
	}
	out := NewOut(args[1])
	defer out.Close()
	unitNilProbe(out, "slice", []int(nil), func(v []int) bool { return v == nil })
	unitNilProbe(out, "ptr", (*int)(nil), func(v *int) bool { return v == nil })
	unitNilProbe(out, "map", map[string]int(nil), func(v map[string]int) bool { return v == nil })
	unitNilProbe(out, "iface", error(nil), func(v error) bool { return v == nil })
	unitNilProbe(out, "func", (func())(nil), func(v func()) bool { return v == nil })
	unitNilProbe(out, "chan", (chan int)(nil), func(v chan int) bool { return v == nil })
	s := Summary{"events": out.n, "traces": out.tr}
	s.Print()
}

func init() { commands["unitnil"] = cmdUnitNil }
