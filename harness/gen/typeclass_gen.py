#!/usr/bin/env python3
"""Emits harness/cmd/fpcheck/tc_gen.go: for a curated list of types (instance expressions nested to depth 4, every tuple
arity 1..21, hlists) the typed constructors from abstract values, the abstraction back, and the real Eq / Hashable / Ord /
Clone instance expressions of the library.  Values are supplied at run time as abstract JSON; only types are static."""
import os

HERE = os.path.dirname(os.path.abspath(__file__))
OUT = os.path.join(HERE, "..", "cmd", "fpcheck", "tc_gen.go")

INT, STR, BYTES = ("int",), ("str",), ("bytes",)
F64, TIME = ("f64",), ("time",)   # float64 (halves; the marker nil = negative zero) and time.Time (rank in a table of instants)


def opt(t): return ("opt", t)
def seq(t): return ("seq", t)
def sl(t): return ("slice", t)
def ptr(t): return ("ptr", t)
def gm(t): return ("gomap", t)
def fm(t): return ("fpmap", t)
def fk(t): return ("fkmap", t)
def wrap(t): return ("wrap", t)
def tup(*ts): return ("tup",) + ts
def hl(*ts): return ("hl",) + ts


TYPES = [INT, STR, BYTES, opt(INT), opt(STR), seq(INT), seq(STR), sl(INT), sl(STR), ptr(INT), ptr(STR), gm(INT), fm(INT), wrap(INT),
         wrap(seq(INT)), opt(opt(INT)), opt(seq(INT)), seq(opt(INT)), seq(seq(INT)), ptr(seq(INT)), seq(ptr(INT)), ptr(ptr(INT)),
         opt(ptr(STR)), gm(seq(INT)), gm(ptr(INT)), ptr(gm(INT)), sl(tup(INT, STR)), tup(seq(INT), gm(INT)), ptr(sl(ptr(gm(INT)))),
         seq(BYTES), opt(BYTES), fm(seq(INT)), tup(INT), tup(INT, STR), tup(opt(INT), sl(INT), ptr(INT)), hl(INT), hl(INT, STR),
         hl(opt(INT), STR, seq(INT)), wrap(tup(INT, STR)), opt(tup(INT, INT)), seq(tup(STR, opt(INT))), ptr(opt(seq(INT))),
         sl(sl(INT)), ptr(sl(INT)), sl(ptr(sl(INT))), tup(ptr(INT), ptr(INT)), gm(gm(INT)), sl(gm(INT)), opt(gm(INT))]
TYPES += [tup(*([INT] * n)) for n in range(2, 22)]
TYPES += [tup(*[(INT, STR, opt(INT))[i % 3] for i in range(n)]) for n in (4, 7, 12, 21)]
TYPES += [hl(*([INT] * n)) for n in (4, 6)]
# a reference component at every position of every arity (what a per-position slip in a generated TupleN would hit)
TYPES += [tup(*([sl(INT)] * n)) for n in range(2, 22)]
TYPES += [hl(*([ptr(INT)] * n)) for n in (2, 3, 5)]
# a container directly over a library value type (Option, hlist.Cons, tuple) that itself holds references: an element-wise
# fast path that misjudges such elements as plain would copy them shallowly
TYPES += [sl(opt(ptr(INT))), seq(opt(sl(INT))), sl(opt(sl(INT))), seq(hl(sl(INT), INT)), sl(hl(ptr(INT))), seq(tup(ptr(INT), INT)),
          sl(opt(gm(INT))), seq(opt(ptr(sl(INT)))), gm(opt(sl(INT))), ptr(opt(sl(INT))), opt(hl(sl(INT)))]
# floats (two zeros) and instants far from 1970
TYPES += [F64, opt(F64), sl(F64), tup(F64, INT), TIME, opt(TIME), sl(TIME), tup(TIME, INT)]
# maps whose key type has values no lookup can find (NaN)
TYPES += [fk(INT), fk(sl(INT)), fk(ptr(INT)), sl(fk(sl(INT)))]


def tid(t):
    if len(t) == 1:
        return t[0]
    return t[0] + "_" + "_".join(tid(x) for x in t[1:]) + "_"


def has(t, kinds):
    return t[0] in kinds or any(has(x, kinds) for x in t[1:])


def gotype(t):
    k = t[0]
    if k == "int": return "int"
    if k == "str": return "string"
    if k == "bytes": return "[]byte"
    if k == "f64": return "float64"
    if k == "time": return "time.Time"
    if k == "opt": return "fp.Option[%s]" % gotype(t[1])
    if k == "seq": return "fp.Seq[%s]" % gotype(t[1])
    if k == "slice": return "[]%s" % gotype(t[1])
    if k == "ptr": return "*%s" % gotype(t[1])
    if k == "gomap": return "map[string]%s" % gotype(t[1])
    if k == "fpmap": return "fp.Map[int, %s]" % gotype(t[1])
    if k == "fkmap": return "map[float64]%s" % gotype(t[1])
    if k == "wrap": return "tcWrap[%s]" % gotype(t[1])
    if k == "tup": return "fp.Tuple%d[%s]" % (len(t) - 1, ", ".join(gotype(x) for x in t[1:]))
    if k == "hl":
        s = "hlist.Nil"
        for x in reversed(t[1:]):
            s = "hlist.Cons[%s, %s]" % (gotype(x), s)
        return s
    raise ValueError(t)


def inst(cls, t):
    """instance expression of typeclass cls (eq | hash | ord | clone) for type t, or None"""
    k = t[0]
    P = cls
    sub = [inst(cls, x) for x in t[1:]]
    if any(s is None for s in sub):
        return None
    if k == "int":
        return {"eq": "eq.Given[int]()", "hash": "hash.Number[int]()", "ord": "ord.Given[int]()", "clone": "clone.Given[int]()"}[cls]
    if k == "str":
        return {"eq": "eq.String", "hash": "hash.String", "ord": "ord.Given[string]()", "clone": "clone.Given[string]()"}[cls]
    if k == "bytes":
        return {"eq": "eq.Bytes", "hash": "hash.Bytes", "ord": None, "clone": "clone.Slice(clone.Given[byte]())"}[cls]
    if k == "f64":
        return {"eq": "eq.Given[float64]()", "hash": "hash.Number[float64]()", "ord": "ord.Given[float64]()", "clone": "clone.Given[float64]()"}[cls]
    if k == "time":
        return {"eq": "eq.Time", "hash": None, "ord": "ord.Time", "clone": "clone.Given[time.Time]()"}[cls]
    if k == "opt": return "%s.Option(%s)" % (P, sub[0])
    if k == "seq": return "%s.Seq(%s)" % (P, sub[0])
    if k == "slice": return "%s.Slice(%s)" % (P, sub[0])
    if k == "ptr": return "%s.Ptr(lazy.Done[%s](%s))" % (P, {"eq": "fp.Eq", "hash": "fp.Hashable", "ord": "fp.Ord", "clone": "fp.Clone"}[cls] + "[" + gotype(t[1]) + "]", sub[0])
    if k == "gomap":
        if cls == "eq": return "eq.GoMap[string](%s)" % sub[0]
        if cls == "clone": return "clone.GoMap(clone.Given[string](), %s)" % sub[0]
        return None
    if k == "fpmap":
        if cls == "eq": return "eq.FpMap[int](%s)" % sub[0]
        return None
    if k == "fkmap":
        # float keys (key 9 stands for NaN, which no lookup finds): only Clone is meaningful
        if cls == "clone": return "clone.GoMap(clone.Given[float64](), %s)" % sub[0]
        return None
    if k == "wrap":
        if cls == "clone": return None
        return "%s.ContraMap(%s, func(w %s) %s { return w.X })" % (P, sub[0], gotype(t), gotype(t[1]))
    if k == "tup":
        if cls == "clone" and len(t) - 1 == 1:
            return None
        return "%s.Tuple%d(%s)" % (P, len(t) - 1, ", ".join(sub))
    if k == "hl":
        s = "%s.HNil" % P
        for x in reversed(sub):
            s = "%s.HCons(%s, %s)" % (P, x, s)
        return s
    raise ValueError(t)


def collect(t, acc):
    for x in t[1:]:
        collect(x, acc)
    if t not in acc:
        acc.append(t)


def emit():
    allt = []
    for t in TYPES:
        collect(t, allt)
    o = []
    w = o.append
    w("//go:build verif\n")
    w("// Code generated by harness/gen/typeclass_gen.py, DO NOT EDIT.\n")
    w("package main\n")
    w('import (\n\t"math"\n\t"sort"\n\n\t"github.com/csgura/fp"\n\t"github.com/csgura/fp/clone"\n\t"github.com/csgura/fp/eq"\n\t"github.com/csgura/fp/hash"\n\t"github.com/csgura/fp/hlist"\n\t"github.com/csgura/fp/immutable"\n\t"github.com/csgura/fp/lazy"\n\t"github.com/csgura/fp/ord"\n\t"time"\n)\n')
    w("var _ = immutable.Map[int, int]\nvar _ = hlist.Empty\nvar _ = lazy.Done[int]\n")
    w("// instants in chronological order, most of them outside the range an int64 of nanoseconds since 1970 can hold\nvar tcTimes = []time.Time{{}, time.Date(1200, 3, 1, 0, 0, 0, 0, time.UTC), time.Date(1700, 1, 1, 0, 0, 0, 0, time.UTC), time.Date(2000, 1, 1, 0, 0, 0, 0, time.UTC),\n\ttime.Date(2000, 1, 1, 0, 0, 0, 1, time.UTC), time.Date(2300, 1, 1, 0, 0, 0, 0, time.UTC), time.Date(9000, 1, 1, 0, 0, 0, 0, time.UTC)}\n")
    for t in allt:
        i, g, k = tid(t), gotype(t), t[0]
        # ---- mk: abstract value -> Go value ----
        w("func mk_%s(a *AV, pl *tcPool) %s {" % (i, g))
        if k == "int":
            w("\treturn a.N")
        elif k == "str":
            w("\treturn tcString(a.Cs)")
        elif k == "bytes":
            w("\tif a.Nil {\n\t\treturn nil\n\t}\n\treturn tcBytes(a.Cs)")
        elif k == "f64":
            w("\tif a.Nil {\n\t\treturn math.Copysign(0, -1)\n\t}\n\treturn float64(a.N) / 2")
        elif k == "time":
            w("\treturn tcTimes[a.N]")
        elif k == "opt":
            w('\tif a.T == "none" {\n\t\treturn fp.None[%s]()\n\t}\n\treturn fp.Some(mk_%s(a.V, pl))' % (gotype(t[1]), tid(t[1])))
        elif k in ("seq", "slice"):
            w("\tif a.Nil {\n\t\treturn nil\n\t}\n\tr := make(%s, len(a.Xs), len(a.Xs)+a.Cap)\n\tfor i, x := range a.Xs {\n\t\tr[i] = mk_%s(x, pl)\n\t}\n\treturn r" % (g, tid(t[1])))
        elif k == "ptr":
            w('\tif a.T == "nilptr" {\n\t\treturn nil\n\t}\n\tif p, ok := pl.get(a.Id); ok {\n\t\treturn p.(%s)\n\t}\n\tv := mk_%s(a.V, pl)\n\tpl.put(a.Id, &v)\n\treturn &v' % (g, tid(t[1])))
        elif k == "gomap":
            w("\tif a.Nil {\n\t\treturn nil\n\t}\n\tr := %s{}\n\tfor i, kk := range a.Ks {\n\t\tr[tcKey(kk)] = mk_%s(a.Vs[i], pl)\n\t}\n\treturn r" % (g, tid(t[1])))
        elif k == "fkmap":
            w("\tif a.Nil {\n\t\treturn nil\n\t}\n\tr := %s{}\n\tfor i, kk := range a.Ks {\n\t\tkey := float64(kk)\n\t\tif kk == 9 {\n\t\t\tkey = math.NaN()\n\t\t}\n\t\tr[key] = mk_%s(a.Vs[i], pl)\n\t}\n\treturn r" % (g, tid(t[1])))
        elif k == "fpmap":
            w("\tr := immutable.Map[int, %s](hash.Number[int]())\n\tfor i, kk := range a.Ks {\n\t\tr = r.Updated(kk, mk_%s(a.Vs[i], pl))\n\t}\n\treturn r" % (gotype(t[1]), tid(t[1])))
        elif k == "wrap":
            w("\treturn %s{X: mk_%s(a.V, pl)}" % (g, tid(t[1])))
        elif k == "tup":
            w("\treturn %s{%s}" % (g, ", ".join("I%d: mk_%s(a.Xs[%d], pl)" % (j + 1, tid(x), j) for j, x in enumerate(t[1:]))))
        elif k == "hl":
            s = "hlist.Empty()"
            for j in reversed(range(len(t) - 1)):
                s = "hlist.Concat(mk_%s(a.Xs[%d], pl), %s)" % (tid(t[1 + j]), j, s)
            w("\treturn %s" % s)
        w("}\n")
        # ---- av: Go value -> abstract value ----
        w("func av_%s(v %s) *AV {" % (i, g))
        if k == "int":
            w('\treturn &AV{T: "int", N: v}')
        elif k == "str":
            w('\treturn &AV{T: "str", Cs: tcCodes([]byte(v))}')
        elif k == "bytes":
            w('\treturn &AV{T: "bytes", Cs: tcCodes(v), Nil: v == nil}')
        elif k == "f64":
            w('\treturn &AV{T: "int", N: int(v * 2)}')
        elif k == "time":
            w('\tfor i, x := range tcTimes {\n\t\tif x.Equal(v) {\n\t\t\treturn &AV{T: "int", N: i}\n\t\t}\n\t}\n\treturn &AV{T: "int", N: -1}')
        elif k == "opt":
            w('\tif v.IsEmpty() {\n\t\treturn &AV{T: "none"}\n\t}\n\treturn &AV{T: "some", V: av_%s(v.Get())}' % tid(t[1]))
        elif k in ("seq", "slice"):
            w('\tr := &AV{T: "seq", Nil: v == nil, Xs: []*AV{}}\n\tfor _, x := range v {\n\t\tr.Xs = append(r.Xs, av_%s(x))\n\t}\n\treturn r' % tid(t[1]))
        elif k == "ptr":
            w('\tif v == nil {\n\t\treturn &AV{T: "nilptr"}\n\t}\n\treturn &AV{T: "ptr", V: av_%s(*v)}' % tid(t[1]))
        elif k == "gomap":
            w('\tr := &AV{T: "map", Nil: v == nil, Ks: []int{}, Vs: []*AV{}}\n\tfor _, kk := range tcSortedKeys(v) {\n\t\tr.Ks = append(r.Ks, tcKeyNum(kk))\n\t\tr.Vs = append(r.Vs, av_%s(v[kk]))\n\t}\n\treturn r' % tid(t[1]))
        elif k == "fkmap":
            w('\tr := &AV{T: "map", Nil: v == nil, Ks: []int{}, Vs: []*AV{}}\n\ttype kv struct {\n\t\tk int\n\t\tv *AV\n\t}\n\tps := []kv{}\n\tfor kk, vv := range v {\n\t\tn := 9\n\t\tif kk == kk {\n\t\t\tn = int(kk)\n\t\t}\n\t\tps = append(ps, kv{n, av_%s(vv)})\n\t}\n\tsort.Slice(ps, func(i, j int) bool { return ps[i].k < ps[j].k })\n\tfor _, e := range ps {\n\t\tr.Ks = append(r.Ks, e.k)\n\t\tr.Vs = append(r.Vs, e.v)\n\t}\n\treturn r' % tid(t[1]))
        elif k == "fpmap":
            w('\tr := &AV{T: "map", Ks: []int{}, Vs: []*AV{}}\n\tfor kk := 0; kk < 64; kk++ {\n\t\tif o := v.Get(kk); o.IsDefined() {\n\t\t\tr.Ks = append(r.Ks, kk)\n\t\t\tr.Vs = append(r.Vs, av_%s(o.Get()))\n\t\t}\n\t}\n\treturn r' % tid(t[1]))
        elif k == "wrap":
            w('\treturn &AV{T: "wrap", V: av_%s(v.X)}' % tid(t[1]))
        elif k == "tup":
            w('\treturn &AV{T: "tup", Xs: []*AV{%s}}' % ", ".join("av_%s(v.I%d)" % (tid(x), j + 1) for j, x in enumerate(t[1:])))
        elif k == "hl":
            parts, cur = [], "v"
            for j, x in enumerate(t[1:]):
                parts.append("av_%s(hlist.Head(%s))" % (tid(x), cur))
                cur = "hlist.Tail(%s)" % cur
            w('\treturn &AV{T: "tup", Xs: []*AV{%s}}' % ", ".join(parts))
        w("}\n")
    # ---- registry ----
    w("func init() {")
    for t in TYPES:
        i, g = tid(t), gotype(t)
        fields = ["mk: mk_%s" % i, "av: av_%s" % i]
        for cls, fld in (("eq", "eq"), ("hash", "hash"), ("ord", "ord"), ("clone", "clone")):
            e = inst(cls, t)
            if e:
                fields.append("%s: %s" % (fld, e))
        w('\ttcRegistry["%s"] = tcType[%s]{%s}' % (i, g, ", ".join(fields)))
    # alternative instances for the same types
    w('\ttcRegistry["ptr_int_#given"] = tcType[*int]{mk: mk_ptr_int_, av: av_ptr_int_, eq: eq.PtrGiven[int]()}')
    w('\ttcRegistry["ptr_str_#given"] = tcType[*string]{mk: mk_ptr_str_, av: av_ptr_str_, eq: eq.PtrGiven[string]()}')
    w('\ttcRegistry["wrap_int_#field"] = tcType[tcWrap[int]]{mk: mk_wrap_int_, av: av_wrap_int_, eq: eq.ContraMap(eq.Given[int](), func(w tcWrap[int]) int { return w.X }), ord: ord.GivenField(func(w tcWrap[int]) int { return w.X })}')
    w('\ttcRegistry["int#new"] = tcType[int]{mk: mk_int, av: av_int, eq: eq.New(func(a, b int) bool { return a == b }), ord: ord.New(eq.Given[int](), func(a, b int) bool { return a < b }), hash: hash.New(eq.Given[int](), func(a int) uint32 { return uint32(a) })}')
    w('\ttcRegistry["int#cmp"] = tcType[int]{mk: mk_int, av: av_int, eq: eq.Given[int](), ord: ord.FromCompare(func(a, b int) int {\n\t\tif a < b {\n\t\t\treturn -1\n\t\t}\n\t\tif a > b {\n\t\t\treturn 1\n\t\t}\n\t\treturn 0\n\t})}')
    w('\ttcRegistry["int#cmpmag"] = tcType[int]{mk: mk_int, av: av_int, eq: eq.Given[int](), ord: ord.FromCompare(func(a, b int) int { return 3 * (a - b) })}')
    w("}\n")
    open(OUT, "w").write("\n".join(o))
    print("generated tc_gen.go:", len(allt), "types,", len(TYPES) + 5, "registry entries")


if __name__ == "__main__":
    emit()
