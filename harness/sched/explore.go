//go:build verif

package sched

import "math/rand"

// Chooser picks the index of the next thread to step among the runnable ones.
type Chooser func(run []*Thread) int

// DFS re-executes exec once per schedule, enumerating all sequences of choices depth-first
// (stateless model checking).  filter, if not nil, restricts the candidates at a choice point.
// It returns the number of executions and whether the enumeration was completed within max.
func DFS(max int, filter func(run []*Thread) []int, exec func(ch Chooser)) (n int, complete bool) {
	var prefix []int
	for {
		var chosen, arity []int
		exec(func(run []*Thread) int {
			cand := allIdx(len(run))
			if filter != nil {
				if c := filter(run); len(c) > 0 {
					cand = c
				}
			}
			k := 0
			if len(chosen) < len(prefix) {
				k = prefix[len(chosen)]
			}
			if k >= len(cand) {
				k = len(cand) - 1
			}
			chosen = append(chosen, k)
			arity = append(arity, len(cand))
			return cand[k]
		})
		n++
		i := len(arity) - 1
		for ; i >= 0; i-- {
			if chosen[i]+1 < arity[i] {
				prefix = append(append([]int(nil), chosen[:i]...), chosen[i]+1)
				break
			}
		}
		if i < 0 {
			return n, true
		}
		if max > 0 && n >= max {
			return n, false
		}
	}
}

// Random returns a seeded random chooser.
func Random(seed int64) Chooser {
	r := rand.New(rand.NewSource(seed))
	return func(run []*Thread) int { return r.Intn(len(run)) }
}

// First always continues the oldest runnable thread.
func First(run []*Thread) int { return 0 }

func allIdx(n int) []int {
	r := make([]int, n)
	for i := range r {
		r[i] = i
	}
	return r
}

// Drive runs the explicit schedule (names; unknown or finished names are skipped), then lets ch
// choose until no thread is runnable or budget steps were taken.  It returns the names stepped.
func (s *Sched) Drive(schedule []string, ch Chooser, budget int) (picked []string, quiesced bool) {
	for _, n := range schedule {
		if _, ok := s.Step(n); ok {
			picked = append(picked, n)
		}
	}
	for len(picked) < budget {
		run := s.Runnable()
		if len(run) == 0 {
			return picked, true
		}
		t := run[ch(run)]
		s.Step(t.Name)
		picked = append(picked, t.Name)
	}
	return picked, len(s.Runnable()) == 0
}
