//go:build verif

// Package sched is a cooperative scheduler over the verif hooks of csgura/fp:
// every managed goroutine parks at each hook site and exactly one of them runs
// at a time, so an execution is a deterministic function of the schedule.
package sched

import (
	"bytes"
	"fmt"
	"runtime"
	"strconv"
	"sync"

	"github.com/csgura/fp"
)

type Thread struct {
	Name     string
	resume   chan struct{}
	parked   chan string
	Done     bool
	At       string // site the thread is parked at ("start" before its first step)
	Panicked bool
	PanicVal any
	Steps    int
}

type Sched struct {
	mu      sync.Mutex
	byGid   map[uint64]*Thread
	threads []*Thread
	byName  map[string]*Thread
	nspawn  int
	// OnSpawn, if set, is told the name given to a task handed over by the default executor.
	OnSpawn func(name string)
	// SpawnPrefix names spawned tasks: <prefix><k> in spawn order.
	SpawnPrefix string
}

func gid() uint64 {
	var buf [64]byte
	b := buf[:runtime.Stack(buf[:], false)]
	b = bytes.TrimPrefix(b, []byte("goroutine "))
	b = b[:bytes.IndexByte(b, ' ')]
	n, _ := strconv.ParseUint(string(b), 10, 64)
	return n
}

// New creates a scheduler and installs it behind the hooks of the library.
func New() *Sched {
	s := &Sched{byGid: map[uint64]*Thread{}, byName: map[string]*Thread{}, SpawnPrefix: "task"}
	fp.VerifSetHook(s.Yield)
	fp.VerifSetSpawn(func(run func()) bool {
		s.Spawn(run)
		return true
	})
	return s
}

// Close removes the hooks. All managed threads must have finished.
func (s *Sched) Close() {
	fp.VerifSetHook(nil)
	fp.VerifSetSpawn(nil)
}

// Start creates a managed thread parked at "start".
func (s *Sched) Start(name string, f func()) *Thread {
	t := &Thread{Name: name, resume: make(chan struct{}), parked: make(chan string, 1), At: "start"}
	s.mu.Lock()
	if _, dup := s.byName[name]; dup {
		s.mu.Unlock()
		panic("sched: duplicate thread " + name)
	}
	s.threads = append(s.threads, t)
	s.byName[name] = t
	s.mu.Unlock()
	ready := make(chan struct{})
	go func() {
		g := gid()
		s.mu.Lock()
		s.byGid[g] = t
		s.mu.Unlock()
		close(ready)
		<-t.resume
		defer func() {
			if r := recover(); r != nil {
				t.Panicked = true
				t.PanicVal = r
			}
			s.mu.Lock()
			delete(s.byGid, g)
			s.mu.Unlock()
			t.parked <- ""
		}()
		f()
	}()
	<-ready
	return t
}

// Spawn turns a task into a managed thread named <SpawnPrefix><k>.
func (s *Sched) Spawn(run func()) string {
	s.mu.Lock()
	s.nspawn++
	name := fmt.Sprintf("%s%d", s.SpawnPrefix, s.nspawn)
	cb := s.OnSpawn
	s.mu.Unlock()
	s.Start(name, run)
	if cb != nil {
		cb(name)
	}
	return name
}

// Yield parks the calling managed thread at site; calls from unmanaged goroutines pass through.
func (s *Sched) Yield(site string) {
	s.mu.Lock()
	t := s.byGid[gid()]
	s.mu.Unlock()
	if t == nil {
		return
	}
	t.parked <- site
	<-t.resume
}

// Managed reports whether the caller runs on a managed thread, and its name.
func (s *Sched) Managed() (string, bool) {
	s.mu.Lock()
	t := s.byGid[gid()]
	s.mu.Unlock()
	if t == nil {
		return "", false
	}
	return t.Name, true
}

// Step resumes the named thread until its next yield point. ok is false when there is no such runnable thread.
func (s *Sched) Step(name string) (site string, ok bool) {
	s.mu.Lock()
	t := s.byName[name]
	s.mu.Unlock()
	if t == nil || t.Done {
		return "", false
	}
	t.resume <- struct{}{}
	op := <-t.parked
	t.At = op
	t.Steps++
	if op == "" {
		t.Done = true
	}
	return op, true
}

// Finish runs the named thread to completion (task-level step).
func (s *Sched) Finish(name string, budget int) bool {
	for i := 0; i < budget; i++ {
		if _, ok := s.Step(name); !ok {
			return true
		}
		if s.Get(name).Done {
			return true
		}
	}
	return false
}

func (s *Sched) Get(name string) *Thread {
	s.mu.Lock()
	defer s.mu.Unlock()
	return s.byName[name]
}

// Runnable lists unfinished threads in creation order.
func (s *Sched) Runnable() []*Thread {
	s.mu.Lock()
	defer s.mu.Unlock()
	var r []*Thread
	for _, t := range s.threads {
		if !t.Done {
			r = append(r, t)
		}
	}
	return r
}

func (s *Sched) All() []*Thread {
	s.mu.Lock()
	defer s.mu.Unlock()
	return append([]*Thread(nil), s.threads...)
}
