"""The checks claimed in MANIFEST.json (bin/mkmanifest turns this into the manifest)."""

HOOK_COMMITS = ["314023f", "8ff5729"]
NOTES = ("Model-based verification with explicit TLA+ specifications (spec/), TLC, and conformance checks in both directions "
         "against the Go code built from /repo's working tree. Exit 2 = infrastructure problem, never a verdict.")
NOT_APPLICABLE = {}

CHECKS = {
 "C05": dict(
  text="TLC checks PromiseAbs (single assignment, exactly-once delivery) exhaustively for 3 callbacks x 2 completers and the TLA+ proof "
       "system (tlapm, 39 obligations) proves its inductive invariant and the safety clauses for ANY number of callbacks and "
       "completers (PromiseAbsProof); TLC checks that the CAS-level model "
       "Promise.tla with Go slice semantics satisfies its invariants, terminates under fairness and refines PromiseAbs for "
       "all interleavings of 2-3 registrars, 2 completers and 0-4 pre-registered callbacks, and rejects the in-place-append "
       "variant. The real fp.Promise is then run under a cooperative scheduler that owns every atomic Get/Load/CAS step: an "
       "edge cover of the exported state graph, exhaustive DFS over scheduler choices for small populations and seeded random "
       "schedules for large ones (all registration methods, executors, nested registration, zero value); every recorded "
       "execution must be accepted by TLC as a behaviour of PromiseAbs.",
  note="Trusted: TLC, the harness scheduler (one goroutine runs at a time, yield points = first line of every "
       "internal/atomic.Value method), Go's memory model between yield points, tlapm and its SMT back end for the unbounded proof. The "
       "refinement Promise => PromiseAbs and the executions of the real code are for bounded populations.",
  technique="TLA+ refinement (Promise => PromiseAbs) model-checked with TLC; schedule replay + TLC trace validation of the real code"),
 "C19": dict(
  text="TLC checks that Cow.tla (the blocks between the yield points of load/copyOnWrite, ComputeIf as read / locked "
       "re-check+write) refines the atomic map CowAbs for every program of 3 threads x 1 op and 2 threads x 2 ops (thorough: "
       "3 x 2) over a 14-operation alphabet, and rejects check-then-act. Schedules from an edge cover of exported graphs, "
       "exhaustive DFS and random schedules are run on the real CopyOnWriteMap under the cooperative scheduler, plus real "
       "parallel goroutines without it; TLC searches a linearization for every recorded call/return history (TraceCowAbs) and "
       "a history without one - differing ComputeIfAbsent results, a lost update, a panic - is a violation. A library panic in the unscheduled race-detector run is an observation (Iterator reading two snapshots).",
  note="Trusted: TLC, the scheduler, the logging discipline (Call logged before, Ret after the real call). 2-4 threads, <= 3 "
       "operations per thread, 3 keys; parallel runs sample the real scheduler, they do not enumerate it.",
  technique="TLA+ refinement checked by TLC; linearizability of recorded histories decided by TLC trace validation"),
 "C03": dict(
  text="TLC checks that Hamt.tla - the trie of immutable/map.go with all five node kinds and their conversions - refines the "
       "reference map (Get, Size, iterator exactly-once, node invariants) for ALL hash functions over 3 keys and the four hasher "
       "families over 6 keys, every history up to the bound, and simulates the model with the real constants (32-way nodes, "
       "thresholds 8/16, 32-bit hashes) checking the same refinement. The simulated histories and seeded random histories over 40 "
       "keys (identity / low-entropy / constant / high-bit / mid-bit / random-table hashers, coarse Eqv, every constructor, builders, "
       "zero values, Concat/Diff/Intersect/SubsetOf) are executed on the real library; after every step the full projection is "
       "logged and TLC (TracePersist) accepts the log only if it equals the reference content of MapSpec. Also: grow-and-shrink histories over 64 keys (a 32-way node filled beyond the thresholds, emptied key by key); a library panic during observation is an observation.",
  note="Trusted: TLC, the harness's projection through the public API (Get of every key, Size, IsEmpty, Iterator). Keys are ints; "
       "the real-constant model is simulated, not exhausted.",
  technique="TLA+ refinement (Hamt => MapSpec) model-checked/simulated with TLC; TLC trace validation of real histories against the reference map"),
 "C04": dict(
  text="The version stores Persist.tla (Map/Set/builders) and SeqStore.tla (Seq, iterator and list results, raw slices) make "
       "persistence an action property: no step changes an existing version. Branching histories are executed on the real "
       "library; after every step EVERY live version and every raw backing array handed to the library (slices with spare "
       "capacity, sub-slices of a shared array) is re-read and logged; TLC accepts the log only if each still has the content "
       "recorded at its creation and each new value equals the eager reference (SeqSpec / MapSpec).",
  note="Trusted: TLC, the harness's snapshots (public API for Map/Set, element-wise reads up to cap for slices). Option/Try/tuples "
       "are value types without reachable mutable storage and are covered only as elements.",
  technique="TLC trace validation of branching histories against version-store specifications (every live version re-observed after every step)"),
 "C12": dict(
  text="SeqSpec.tla is the eager reference (its laws are model-checked); Stream.tla - the look-ahead machines of iterator.go - is "
       "model-checked against it for all sources <= 4, all one- and two-stage pipelines and all call patterns, including the demand "
       "bound (the prefetching Filter is rejected). Seeded pipelines of 1-6 combinators over instrumented finite sources and "
       "unbounded generators (with a pull budget) run on the real library under varied demand patterns; TLC (TraceIter) accepts a "
       "log only if every answer is the eager output, the pull counter stays within max(pulled0, Need(demand)) + 2 per stage, and "
       "a budget overrun could not have been avoided. Iterator/list/seq implementations of the same operation are compared "
       "through SeqStore (shared with C04). Also: zip / zip3 stages, the Fold family and Min / Max under a coarse order (ties) as terminal operations of iterator, list and seq.",
  note="Demand is an upper bound (lenient reading): Need(c) is the whole source when no c-th output exists; stages that buffer "
       "by design (lazy List, iter.Pull) get their look-ahead in output elements. Element type int; memoised list cells are "
       "covered by C16's run-once check.",
  technique="TLC model checking of iterator state machines against an eager reference; TLC trace validation of real pipelines incl. pull counts"),
 "C20": dict(
  text="Dup.tla (Duplicate as written: queue + leftAhead) is model-checked for every interleaving of HasNext/Next on both "
       "sides; Stream.tla for every call pattern on single iterators. Every iterator-producing function of the library "
       "(17 ordered constructors, 11 hash-collection iterators, the zero value, every combinator) and both sides of "
       "Duplicate/Span/Partition are driven with call patterns including repeated HasNext, consecutive Next and Next on an "
       "exhausted iterator; TLC (TraceIter) accepts the log only if every answer is the one the abstract iterator of IterSpec gives. Also: zip / zip3 stages and map / set producers under a low-entropy lawful hasher (several collision groups).",
  note="Trusted: TLC and the harness's call logging; hash-collection iterators are compared as multisets; element type int.",
  technique="TLC model checking of Duplicate and look-ahead machines; TLC trace validation of call patterns on every real iterator producer"),
 "C16": dict(
  text="EvalSpec.tla models the trampoline of lazy/lazy.go with closures as data; TLC checks for all 2 468 programs of its "
       "space (Done/Call/TailCall/Map/FlatMap/Map2, nested) that Run yields the strict value, terminates, re-association keeps "
       "continuation nesting <= 3 on tail chains, and a memoised thunk never runs twice even when Get restarts. The "
       "model-checked programs are exported and run on the real lazy package, together with seeded random programs, tail "
       "chains of depth 10..10^6 (thorough 2*10^7) whose thunks sample the Go stack depth, repeated Get, and concurrent "
       "getters held at a gate inside the thunk (lazy.Call, TailCall, Func1, lazy.Memoize, fp.Memoize, list cells); TLC "
       "(TraceEval) accepts the log only if results equal EvalSpec!Strict, no program thunk runs twice, stack depth is "
       "independent of the recursion depth and every concurrent scenario shows one execution and one value. Also: one Eval extended several times after 0..20 chained continuations (independent values), list.FoldRight in tail position (stack independent of length), run-once when the single run panics.",
  note="Stack depth is measured (runtime.Callers, sampled), not modelled; deep chains run in their own process and stack "
       "exhaustion there is reported as the violation it is. Concurrency verdicts use only timing-independent facts.",
  technique="TLC model checking of the trampoline; replay of the TLC-exported program space + TLC trace validation on the real lazy package"),
 "C17": dict(
  text="StateTSpec!Run is the reference semantics of fp.StateT (result, final state = state at the point of failure, primitive steps "
       "executed in order, handler invocations with the error and state received). TLC checks the state-monad laws, left-to-right "
       "threading, failure short-circuit and the Recover* clauses for all 4 860 programs of the space x 3 initial states, exports "
       "the space, and every exported program plus seeded random programs (FlatMap/Map/Map2/Sequence/Concat/Traverse/FoldM, all 8 "
       "Recover* variants, depth <= 5) is run with the real statet package; TLC (TraceStateT) accepts a run only if result, state, "
       "executed steps and handler arguments equal Run's. Also: recovery programs that change the state and fail, statet.Ap, statet.ApTry / ApOption, and every program value run twice from different states (a StateT is a description).",
  note="S = int, A = []int; errors compared by identity; function parameters come from a small table.",
  technique="TLC checks laws on a reference semantics over a program space; exported + random programs replayed on the real package and validated by TLC"),
 "C01": dict(
  text="EffectSpec.tla defines U and FM as the hand-written Go does and every derived combinator by its defining equation; TLC "
       "(MCEffect) checks left/right identity, associativity, Map = FlatMap(unit . f) and that each definition equals the "
       "independent first-failure oracle on 891 648 argument tuples x continuation tables. TLC exports a space of 1 349 semantic "
       "programs; each is run with EVERY fitting function of try, option and either (Map/Lift/Method/With/Ap/Zip*/MapN/LiftAN/"
       "FlatMapN/LiftMN, N=2..9, Sequence*/FlatMap/LiftM/Flatten/Compose2..5/Traverse*/FoldM/ApFunc/ApplicativeN/ChainN/Recover*/Or*), "
       "plus seeded random nested programs; TLC (TraceEffect) accepts a run only if result and callback order equal "
       "EffectSpec!Eval. A combinator that never returns (stack exhaustion) is attributed to its case and reported. The same "
       "laws for Seq/List/Iterator, StateT and lazy.Eval are carried by SeqSpec, StateTSpec and EvalSpec (C12, C17, C16). Also: the unit of each monad on the nil value of slice / pointer / map / interface / func / chan payload types (TraceEffect!TUnitNil), and FoldM / Traverse over a counting source (no pulling after the first failure).",
  note="Payload []int; functions from a small table. Not covered: the reader monads fn0/fn1 and the SeqT/OptionT transformer "
       "functions (try_seqt.go, try_optiont.go); Seq/List/Iterator only through their own checks.",
  technique="TLC checks laws + defining equations against an oracle; TLC-exported programs x all fitting library functions replayed and validated by TLC"),
 "C02": dict(
  text="For every arity 2..9 and EVERY subset of failing positions (position i fails with its own error) the combinators "
       "MapN/LiftAN/FlatMapN/LiftMN/Zip*/Sequence* of try, option and either are run; TLC-exported programs add every val/supplier "
       "pattern of ApFunc and the ApplicativeN/ChainN builders, continuations, Traverse*/FoldM, Recover*/Or*/OrElse* and "
       "try.Of/Call/CallUnit with panic values of three types; seeded random nested programs on top. Each run logs the result, the "
       "identity of the returned error and the ids of the callbacks invoked in order; TLC (TraceEffect) accepts only: the first "
       "failing operand's own error, no callback after a failure, earlier ones exactly once, handlers only on failure, panics "
       "as failures exposing the panic value. MCEffect proves the definitional semantics equal to that oracle. Also: the isDefinedAt predicates of RecoverCase* as logged callbacks, ChainN builder stages computed from the previous value (FlatMap / Map stages), and a StateT sub-run with statet.ApTry / ApOption (StateTSpec).",
  note="future.Apply/Apply2 panics are checked in C06. Operands are values (evaluated by the caller); only callbacks can be skipped.",
  technique="exhaustive failure-subset enumeration per arity on the real packages, validated by TLC against the first-failure oracle with a call log"),
 "C06": dict(
  text="FutureSpec.tla: the value of an expression is its Try-evaluation over the sources' results; PEval is that evaluation while "
       "sources are pending (left to right, 'blocked' when it needs an incomplete source). TLC (MCFuture) checks for 586 expressions "
       "x 27 result assignments x all completion orders: single assignment, never completed before PEval is settled, final value "
       "independent of the order, completion under fairness. The expression space is exported and built with every fitting function "
       "of the real future package (Map/Lift/Method*/With/Ap/Map2/Zip*/Sequence*/LiftA2..9/LiftM2..9/FlatMap/LiftM/Flatten/"
       "TransformWith/Compose2..5/Traverse*/FoldFuture/ApFunc/ApplicativeN/ChainN with ApFuture/ApFutureFunc/Recover*/Or*/Apply/"
       "Apply2/Func* incl. panics); the cooperative scheduler owns every interleaving (default executor -> scheduler tasks, the "
       "construction itself is a scheduled thread): exhaustive task-level DFS and random atomic-level schedules. After every "
       "scheduling step the derived future is observed; TLC (TraceFuture) rejects early, wrong, changing or missing completions.",
  note="Task-level exploration relies on C05 (each promise operation is linearizable). User-supplied executors are exercised in C05; "
       "here the default executor is redirected to the scheduler. Await/timeouts are not covered.",
  technique="TLC model checking of partial evaluation semantics; exhaustive/random schedule exploration of the real package validated by TLC"),
 "C09": dict(
  text="Typeclass.tla gives instance expressions a meaning over abstract values (SemEq: components pairwise equal, nil/empty and "
       "pointer identity abstracted away); TLC checks it is an equivalence on all triples of twelve universes (207 847 triples). For "
       "80 instance expressions of the real eq/hash packages (depth <= 4, Tuple1..21, HCons/HNil, ContraMap, PtrGiven, New, GoMap, FpMap) "
       "seeded universes containing distinct representations of equal values are built; the full Eqv matrix, hash equality classes and "
       "hash determinism are logged and TLC (TraceTypeclass) accepts only Eqv = SemEq and SemEq => equal hashes.",
  note="NaN excluded by the property; time.Time not in the universes. Hash values are compared, never predicted.",
  technique="TLC checks the reference equivalence; full Eqv/hash-class matrices of the real instances validated by TLC"),
 "C10": dict(
  text="SemLess (None < Some, nil first, lexicographic with shorter prefix first) is checked by TLC to be a strict total order "
       "compatible with SemEq on all triples. For every Ord instance expression of the real library the matrices of Less (both ways), "
       "LessEq, Eqv, Compare, Min, Max, Reversed and ThenComparing over seeded universes are logged, and Sort/Min/Max of seq, iterator "
       "and list on every key sequence of length <= 5 over 3 keys (tie-distinguishable payloads) plus long random inputs; TLC accepts "
       "only SemLess, an ordered permutation of the untouched input and least/greatest elements.",
  note="Sort need not be stable; Min/Max may return any least/greatest element; ord.Time not covered.",
  technique="TLC checks the reference order; comparison matrices and sort results of the real library validated by TLC"),
 "C18": dict(
  text="For every Clone instance expression of the real library (Given, Ptr, Slice, Seq, GoMap, Option, Tuple2..21, HCons/HNil; depth "
       "<= 4) and every value of a seeded universe (nil/empty cases, internally aliased pointers) the harness clones, collects through "
       "reflection the addresses of all pointer targets, slice arrays and maps reachable from original and clone, mutates every mutable "
       "cell of one side and re-reads the other (both directions); TLC (TraceTypeclass) accepts only: clone SemEq original, zero shared "
       "addresses, neither side changed by the other's mutation. Also: containers directly over Option / hlist / tuple values holding references, float-keyed maps with a NaN key, the TupleN arity sweep, and the same instance cloning the same value from 8 goroutines at once.",
  note="clone.Generic / derived struct clones are exercised in C08. Address collection uses reflect + unsafe on private fields.",
  technique="heap-graph observation (addresses + mutation) of real clones validated by TLC against the abstract equality"),
 "C11": dict(
  text="Monoid.tla gives every instance its meaning (Sum adds, Product multiplies, All/Any, concatenation, right-biased unions, "
       "Option/Try inside, neutral-absent semigroup Option/Ptr, componentwise Tuple/HCons, Dual flips, Endo composes, Eval/IMap "
       "transport); TLC checks associativity and two-sided identity of that meaning on all triples (10 590). For 33 instances of the "
       "real monoid and semigroup packages the full Combine table, Empty, (a+b)+c vs a+(b+c) on every triple and Empty+a / a+Empty are "
       "logged, and seq/iterator/list Reduce and FoldMap on every sequence of length <= 4 over three values; TLC (TraceMonoid) accepts "
       "only the meaning of Monoid.tla, real associativity/identity and results equal to the left fold of Combine from Empty.",
  note="Functions compared extensionally on {0,1,2,-3}; no overflow, no floats; Endo may compose in either order (consistently) and "
       "Dual(Endo) must use the other one. monoid.Future and MergeSeq over other element types are not exercised; TupleN wiring for all "
       "arities is C14's.",
  technique="TLC checks monoid laws on the reference meaning; Combine tables, real-instance law checks and Reduce/FoldMap results validated by TLC"),
 "C14": dict(
  text="Arity.tla states, per family and arity, the wiring of position-tagged arguments (identity permutation, shift, projection, "
       "reversal, pipeline) and the number of user-function calls; TLC checks for all 45 families x arities 2..21 that nothing is "
       "dropped, duplicated or reordered. Every member present in the repository (703 calls: TupleN and LabelledN accessors, as.* incl. as.LabelledN / HListNLabelled, product.LabelledFromHListN, curried.* incl. partial-application reuse probes, hlist.*, "
       "product.*, fp.ComposeN/IdN/ApplyFirstN/ApplyLastN, fn1.MergeN, unit.FuncN, eq/ord/hash/monoid/clone TupleN) is called with "
       "arguments of pairwise distinct types carrying their position; TLC (TraceArity) accepts only Arity!W and Arity!Calls. The "
       "option/try/either MapN/LiftAN/FlatMapN/LiftMN members run with position-tagged successes and are judged by EffectSpec.",
  note="Finite space, fully enumerated (exhaustive). Parametricity already forces much of the wiring at compile time; the check adds the "
       "type-unforced parts (argument order inside instances, evaluation counts, Compose order, Id/Head/Last projections, dropped "
       "components, state shared between partial applications).",
  technique="exhaustive enumeration of family members with position-tagged, distinctly typed arguments, validated by TLC against wiring tables"),
 "C07": dict(
  text="Gombok.tla states which API an @fp.Value declaration must get (getter/With per private field, Option setters, builder, "
       "AsTuple/FromTuple/Unapply/Apply below 22 active fields, AsLabelled with @fp.GenLabelled, AsMap/AsMutable/String always, "
       "Marshal/UnmarshalJSON with @fp.Json) and an abstract machine of the API whose accessor and round-trip laws TLC checks for "
       "every shape up to three fields. Seeded scratch packages (boundary shapes 1/21/22/23 fields, generic struct, Option-only, "
       "func/chan/interface/error fields, underscore/embedded fields; random shapes over every field kind x visibility x tag with "
       "shadow-prone field names) are run through gombok built from the working tree twice (GOMAXPROCS 1 and 16, outputs must be "
       "byte-identical), then go vet + go build, then a generic reflection driver inside the generated package that uses the "
       "private fields as oracle on 25 random values per struct. Every API call of the first four values is also logged as an Op "
       "event (digests of all fields before, call, digests after) and TLC evaluates Gombok!Expected - the same operators the bounded "
       "model checks - to decide what the value after the call must be. TLC (TraceGombok) accepts only events with the required API "
       "present, every law true and every Op as specified; a failing package is bisected to the struct that breaks it.",
  note="Trusted: TLC, go/types + the Go compiler as the judge of 'compiles', the reflection driver (reads fields via unsafe). "
       "Field names Builder/Mutable/String-colliding with the generated API are outside the grammar. The grammar includes the annotation "
       "combinations (@fp.Value with @fp.Getter/@fp.With/@fp.Builder/@fp.String/@fp.AllArgsConstructor/@fp.RequiredArgsConstructor and the "
       "partial ones alone), user packages named like generated imports (option, as), embedded pointers / interfaces / named types and "
       "embedded types whose promoted methods collide with generated accessors; @fp.Deref, @fp.GetterPubField/@fp.WithPubField and "
       "user-pre-defined methods are not generated. Struct shapes are sampled (seeded), not enumerated.",
  technique="TLA+ API/law specification model-checked with TLC; generator run on seeded struct grammars, generated code driven by reflection, events validated by TLC"),
 "C15": dict(
  text="JsonCodec.tla defines Enc / Dec / Faithful for int, string, Unit, Option, pointer, slice and objects with omitempty; TLC checks "
       "Dec(Enc(x)) = x for every faithful value of every type of depth <= 3 and that the side condition is tight. The real "
       "fp.Option / fp.Unit are run under encoding/json on 24 Go types (nested Options, pointers to and slices of Options, structs "
       "with omitempty, 64-bit extremes, strings needing escapes): TLC (TraceJson) recomputes Enc(ty, x) and accepts only bytes that "
       "parse to exactly that, a decoded value equal to Dec, and equality for faithful values; hostile input (noise, truncation, "
       "wrong-typed documents, deep nesting; via encoding/json and direct UnmarshalJSON calls) must neither panic nor change an "
       "Option/Unit target on error. @fp.Json structs from the C07 grammar go through gombok from the working tree: round trip, "
       "byte comparison with an independently written public twin struct, and wrong-typed values late in valid documents decoded "
       "into a pre-filled target whose deep copy must be unchanged on error (TraceGombokJson).",
  note="Trusted: TLC, the token walk that parses emitted bytes, encoding/json itself (what it does to plain pointer/slice/struct "
       "targets before reporting an error is not attributed to fp). Floats are not generated (no independent formatting oracle); "
       "either.go's Marshal-only Left/Right are not covered. Struct shapes and values are sampled (seeded).",
  technique="TLA+ codec specification model-checked with TLC; recorded Marshal/Unmarshal observations and decoder fuzz validated by TLC against it"),
 "C08": dict(
  text="Derive.tla states the documented resolution precedence (working package, package of the type, derive package) and composes "
       "field instances one hlist.Cons at a time as eq/ord/hash/monoid.HCons and TupleN do; TLC checks for every choice of field "
       "instances and every value triple up to 3 fields that the composition is the conjunction of the field equalities, a hash "
       "respecting it, the lexicographic order in declaration order (lawful, consistent with the equality) and the field-by-field "
       "monoid with its laws. Seeded scratch packages of types and @fp.Derive directives (Eq, Ord, Hashable, Monoid, Clone; value and "
       "plain structs, nesting, one/two/phantom type parameters, recursion through pointers, 23 fields, recursive=true, field types "
       "with overriding instances in the working package / the type's package / both / neither) go through gombok from the working "
       "tree (twice, byte-identical), go vet + go build with a registry calling every instance by its documented name and arity, and "
       "a driver comparing each instance with a field-by-field reference written by the harness from the naming rule on 150 value "
       "triples; overriding instances are semantically distinct and count uses. For 40 comparisons per instance the verdicts of the "
       "field instances are logged and TLC applies Derive!CEqV / CLessV - the composition the bounded model checks - to decide what "
       "the derived instance must answer. TLC (TraceDerive) accepts only agreeing laws, specified compositions and counters "
       "consistent with Derive!Resolve.",
  note="Trusted: TLC, the Go compiler as judge of 'compiles', the base instances of the typeclass packages (C09-C11, C18 check those). "
       "Show instances and the js/read example typeclasses are not covered; recursion through bare slices ([]T of the type itself) is "
       "outside the stated grammar (gombok emits an eagerly recursive instance for it). Also covered by special packages: local generic "
       "instance functions (EqSlice/CloneSlice), time.Duration under both local name forms, @fp.ImportGiven with a local EqSeq that needs "
       "Ord[T] (README 7), nested generic instantiation with distinct type arguments, []byte fields, embedded empty / private structs, a "
       "plain directive followed by recursive=true. Random shapes are sampled (seeded).",
  technique="TLA+ composition/resolution specification model-checked with TLC; derived instances compared with field-wise references, events validated by TLC"),
 "C13": dict(
  level="translation_validation",
  text="GenFix.tla states the property as a transition system on the digest tree (a generator pass is a stuttering step, all passes "
       "write the same bytes, every generated file has an owner). In a scratch copy of /repo's working tree the three generators are "
       "built from that copy and all 34 go:generate directives are executed the way `go generate` does, in several passes under "
       "different GOMAXPROCS (each process re-randomises map iteration) and on top of the regenerated tree; SHA-256 digests of every Go "
       "file before and after each pass, the set of files written and failed directives are logged and TLC (TraceGenFix) accepts only "
       "fixpoint passes without orphans. programs = generator runs; disagreements = files whose digest changed.",
  note="TLA+ contributes the statement and the uniform accept/reject; the verdict is a digest comparison of real generator output, hence "
       "translation_validation rather than model_checking. Scratch packages of C07/C08 are regenerated twice inside those checks.",
  technique="generator runs as events validated against a fixpoint specification (digest comparison)"),
}
