"""The checks claimed in MANIFEST.json (bin/mkmanifest turns this into the manifest)."""

HOOK_COMMITS = ["314023f"]
NOTES = ("Model-based verification with explicit TLA+ specifications (spec/), TLC, and conformance checks in both directions "
         "against the Go code built from /repo's working tree. Exit 2 = infrastructure problem, never a verdict.")
NOT_APPLICABLE = {}

CHECKS = {
 "C05": dict(
  text="TLC checks PromiseAbs (single assignment, exactly-once delivery) exhaustively, checks that the CAS-level model "
       "Promise.tla with Go slice semantics satisfies its invariants, terminates under fairness and refines PromiseAbs for "
       "all interleavings of 2-3 registrars, 2 completers and 0-4 pre-registered callbacks, and rejects the in-place-append "
       "variant. The real fp.Promise is then run under a cooperative scheduler that owns every atomic Get/Load/CAS step: an "
       "edge cover of the exported state graph, exhaustive DFS over scheduler choices for small populations and seeded random "
       "schedules for large ones (all registration methods, executors, nested registration, zero value); every recorded "
       "execution must be accepted by TLC as a behaviour of PromiseAbs.",
  note="Trusted: TLC, the harness scheduler (one goroutine runs at a time, yield points = first line of every "
       "internal/atomic.Value method), Go's memory model between yield points. Bounded populations; unbounded thread counts "
       "are not proved.",
  technique="TLA+ refinement (Promise => PromiseAbs) model-checked with TLC; schedule replay + TLC trace validation of the real code"),
 "C19": dict(
  text="TLC checks that Cow.tla (the blocks between the yield points of load/copyOnWrite, ComputeIf as read / locked "
       "re-check+write) refines the atomic map CowAbs for every program of 3 threads x 1 op and 2 threads x 2 ops (thorough: "
       "3 x 2) over a 14-operation alphabet, and rejects check-then-act. Schedules from an edge cover of exported graphs, "
       "exhaustive DFS and random schedules are run on the real CopyOnWriteMap under the cooperative scheduler, plus real "
       "parallel goroutines without it; TLC searches a linearization for every recorded call/return history (TraceCowAbs) and "
       "a history without one - differing ComputeIfAbsent results, a lost update, a panic - is a violation.",
  note="Trusted: TLC, the scheduler, the logging discipline (Call logged before, Ret after the real call). 2-4 threads, <= 3 "
       "operations per thread, 3 keys; parallel runs sample the real scheduler, they do not enumerate it.",
  technique="TLA+ refinement checked by TLC; linearizability of recorded histories decided by TLC trace validation"),
}
