"""A small parser for values in TLC's output syntax (ToString / error traces / simulation files):
   <<a, b>>  {a, b}  [f |-> v, ...]  (k :> v @@ k :> v)  "str"  123  TRUE FALSE  modelvalue
Records and functions become dicts, sequences tuples, sets frozensets."""


class P:
    def __init__(self, s):
        self.s, self.i = s, 0

    def ws(self):
        while self.i < len(self.s) and self.s[self.i] in " \t\r\n":
            self.i += 1

    def peek(self, t):
        self.ws()
        return self.s.startswith(t, self.i)

    def eat(self, t):
        self.ws()
        if not self.s.startswith(t, self.i):
            raise ValueError("expected %r at %d: %r" % (t, self.i, self.s[self.i:self.i + 30]))
        self.i += len(t)

    def value(self):
        self.ws()
        s = self.s
        if self.peek("<<"):
            self.eat("<<")
            items = []
            while not self.peek(">>"):
                items.append(self.value())
                if self.peek(","):
                    self.eat(",")
            self.eat(">>")
            return tuple(items)
        if self.peek("{"):
            self.eat("{")
            items = []
            while not self.peek("}"):
                items.append(self.value())
                if self.peek(","):
                    self.eat(",")
            self.eat("}")
            return frozenset(items)
        if self.peek("["):
            self.eat("[")
            d = {}
            while not self.peek("]"):
                self.ws()
                j = self.i
                while s[self.i] not in " |":
                    self.i += 1
                k = s[j:self.i]
                self.eat("|->")
                d[k] = self.value()
                if self.peek(","):
                    self.eat(",")
            self.eat("]")
            return FrozenDict(d)
        if self.peek("("):
            self.eat("(")
            d = {}
            while not self.peek(")"):
                k = self.value()
                self.eat(":>")
                d[k] = self.value()
                if self.peek("@@"):
                    self.eat("@@")
            self.eat(")")
            return FrozenDict(d)
        if self.peek('"'):
            self.i += 1
            out = []
            while s[self.i] != '"':
                if s[self.i] == "\\":
                    self.i += 1
                out.append(s[self.i])
                self.i += 1
            self.i += 1
            return "".join(out)
        j = self.i
        while self.i < len(s) and (s[self.i].isalnum() or s[self.i] in "_-."):
            self.i += 1
        tok = s[j:self.i]
        if tok == "TRUE":
            return True
        if tok == "FALSE":
            return False
        try:
            return int(tok)
        except ValueError:
            if not tok:
                raise ValueError("unexpected %r at %d" % (s[self.i:self.i + 20], self.i))
            return tok


class FrozenDict(dict):
    def __hash__(self):
        return hash(frozenset(self.items()))


def parse(s):
    p = P(s)
    v = p.value()
    p.ws()
    if p.i != len(s):
        raise ValueError("trailing text at %d: %r" % (p.i, s[p.i:p.i + 30]))
    return v


def canon(v):
    """Canonical, order-independent text for a parsed value."""
    if isinstance(v, dict):
        return "[" + ",".join(sorted(canon(k) + ":" + canon(x) for k, x in v.items())) + "]"
    if isinstance(v, tuple):
        return "<" + ",".join(canon(x) for x in v) + ">"
    if isinstance(v, frozenset):
        return "{" + ",".join(sorted(canon(x) for x in v)) + "}"
    return repr(v)


def tojson(v):
    """JSON-friendly view: dict keys become strings, sets sorted lists."""
    if isinstance(v, dict):
        return {(k if isinstance(k, str) else canon(k)): tojson(x) for k, x in v.items()}
    if isinstance(v, tuple):
        return [tojson(x) for x in v]
    if isinstance(v, frozenset):
        return sorted((tojson(x) for x in v), key=lambda x: str(x))
    return v
