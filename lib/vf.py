"""Shared driver machinery for the model-based checks of csgura/fp (see /verif/DESIGN.md).

Every check is  bin/check <Cnn> [--tier quick|thorough] [--replay file]  and follows the same
protocol: (A) TLC checks the property on the specification, (B)/(C) the real code built from
/repo is driven by the harness and its recorded executions are accepted or rejected by TLC
against the property-level specification.  Exit codes: 0 held, 1 violation (with a VIOLATION
line), 2 infrastructure problem (never a verdict).
"""
import hashlib
import json
import os
import re
import shutil
import subprocess
import sys
import tempfile
import time

VERIF = os.path.dirname(os.path.dirname(os.path.abspath(__file__)))
SPEC = os.path.join(VERIF, "spec")
HARNESS = os.path.join(VERIF, "harness")
REPO = os.environ.get("VERIF_REPO", "/repo")
NCPU = os.cpu_count() or 4

GOENV = dict(GOFLAGS="-mod=mod", GOPROXY="off", GOSUMDB="off", GOTOOLCHAIN="local")


class Infra(Exception):
    """Infrastructure failure: exit 2, never a verdict."""


class TLCResult:
    def __init__(self, out, rc, wall):
        self.out, self.rc, self.wall = out, rc, wall
        m = re.findall(r"(\d+) states generated, (\d+) distinct states found", out)
        self.generated = int(m[-1][0]) if m else 0
        self.distinct = int(m[-1][1]) if m else 0
        m = re.search(r"depth of the complete state graph search is (\d+)", out)
        self.depth = int(m.group(1)) if m else 0
        self.violated = re.findall(r"Error: Invariant (\S+) is violated", out)
        self.violated += re.findall(r"Error: Action property (\S+)", out)
        if "Temporal properties were violated" in out:
            self.violated.append("temporal")
        self.post_false = "Postcondition" in out and "is false" in out
        m = re.search(r'<<"HIGHWATER", (\d+), (\d+)>>', out)
        self.highwater = (int(m.group(1)), int(m.group(2))) if m else None
        self.completed = "Model checking completed" in out or "Finished in" in out or "The number of states generated" in out
        self.errors = [l for l in out.splitlines() if l.startswith("Error:")]

    @property
    def clean(self):
        return self.completed and not self.errors and self.rc == 0


class Check:
    def __init__(self, prop, level="model_checking"):
        self.prop = prop
        self.level = level
        args = sys.argv[2:]
        self.tier = os.environ.get("VERIF_TIER", "quick")
        self.replay = None
        self.keep = False
        i = 0
        while i < len(args):
            if args[i] == "--tier":
                self.tier = args[i + 1]; i += 2
            elif args[i] == "--replay":
                self.replay = args[i + 1]; i += 2
            elif args[i] == "--keep":
                self.keep = True; i += 1
            else:
                raise SystemExit("unknown argument " + args[i])
        if self.tier not in ("quick", "thorough"):
            self.tier = "quick"
        self.thorough = self.tier == "thorough"
        try:
            self.seed = int(os.environ.get("VERIF_SEED", "1"))
        except ValueError:
            self.seed = 1
        self.t0 = time.time()
        self.tmp = tempfile.mkdtemp(prefix="verif-%s-" % prop)
        self.nrun = 0
        self.cov = dict(states=0, transitions=0, traces_validated_against_impl=0, evaluations=0,
                        distinct_nontrivial=0, samples=[], rule="", exhaustive=False)
        self.extra = {}
        self.assumptions = []
        self.violations = []      # (signature, replay_path)
        self.known_seen = []
        self.tlc_runs = []
        self.fpcheck = None
        self.known = load_known(prop)

    # ---------------------------------------------------------------- TLC
    def tlc(self, module, cfg=None, workers=None, timeout=900, files=None, simulate=None,
            depth=None, seed=None, deque=False, count=True, extra_args=None):
        """Run TLC on spec/<module>.tla with spec/<cfg>.cfg in a scratch copy of spec/."""
        self.nrun += 1
        d = os.path.join(self.tmp, "tlc%d" % self.nrun)
        os.makedirs(d)
        for f in os.listdir(SPEC):
            if f.endswith(".tla") or f.endswith(".cfg"):
                shutil.copy(os.path.join(SPEC, f), d)
        for name, src in (files or {}).items():
            dst = os.path.join(d, name)
            if isinstance(src, tuple):      # ("path", file)
                shutil.copy(src[1], dst)
            else:
                with open(dst, "w") as fh:
                    fh.write(src)
        cfg = cfg or module
        cmd = ["timeout", str(timeout), "tlc", "-metadir", os.path.join(d, "meta"),
               "-workers", str(workers or min(NCPU, 8)), "-config", cfg + ".cfg"]
        if simulate:
            cmd += ["-simulate", simulate]
        if depth:
            cmd += ["-depth", str(depth)]
        if seed is not None:
            cmd += ["-seed", str(seed)]
        cmd += (extra_args or []) + [module + ".tla"]
        env = dict(os.environ)
        # deep (lazy) values such as long version stores overflow the default Java stack
        # (java.io.tmpdir: TLC leaves one tlc-<n> directory per run in the JVM's temporary directory)
        env["JAVA_TOOL_OPTIONS"] = (env.get("JAVA_TOOL_OPTIONS", "") + " -Xss512m -Djava.io.tmpdir=" + d).strip()
        if deque:
            env["JAVA_TOOL_OPTIONS"] = (env.get("JAVA_TOOL_OPTIONS", "") +
                                        " -Dtlc2.tool.queue.IStateQueue=StateDeque").strip()
        t = time.time()
        p = subprocess.run(cmd, cwd=d, env=env, capture_output=True, text=True)
        r = TLCResult(p.stdout + p.stderr, p.returncode, time.time() - t)
        r.dir = d
        with open(os.path.join(d, "tlc.out"), "w") as fh:
            fh.write(r.out)
        if p.returncode == 124:
            raise Infra("TLC timed out after %ds on %s/%s" % (timeout, module, cfg))
        if count:
            self.cov["states"] += r.distinct
            self.cov["transitions"] += r.generated
        self.tlc_runs.append(dict(module=module, cfg=cfg, distinct=r.distinct, generated=r.generated,
                                  depth=r.depth, wall_s=round(r.wall, 1)))
        return r

    def tlapm(self, module, timeout=900):
        """Check the proofs of spec/<module>.tla with the TLA+ proof system; returns the number of proved obligations.
        A proof that does not go through says something about the specification, not about the code: Infra."""
        self.nrun += 1
        d = os.path.join(self.tmp, "tlapm%d" % self.nrun)
        os.makedirs(d)
        for f in os.listdir(SPEC):
            if f.endswith(".tla"):
                shutil.copy(os.path.join(SPEC, f), d)
        t = time.time()
        p = subprocess.run(["timeout", str(timeout), "tlapm", "--threads", str(min(NCPU, 16)), module + ".tla"],
                           cwd=d, capture_output=True, text=True)
        out = p.stdout + p.stderr
        m = re.search(r"All (\d+) obligations? proved", out)
        if p.returncode != 0 or not m:
            sys.stderr.write(out[-3000:])
            raise Infra("tlapm did not prove %s (exit %d)" % (module, p.returncode))
        n = int(m.group(1))
        self.extra.setdefault("tlaps", []).append(dict(module=module, obligations_proved=n, wall_s=round(time.time() - t, 1)))
        return n

    def tlc_expect_clean(self, module, cfg=None, **kw):
        """Leg (A): the specification itself must satisfy its properties; a failure here is an
        error in the model (exit 2), never a verdict about the code."""
        r = self.tlc(module, cfg, **kw)
        if not r.clean or r.violated:
            sys.stderr.write(r.out[-4000:])
            raise Infra("specification %s/%s does not satisfy its own properties: %s" %
                        (module, cfg or module, r.violated or r.errors[:2]))
        return r

    def tlc_expect_violation(self, module, cfg, **kw):
        """Negative configuration: TLC must reject the deliberately wrong variant."""
        r = self.tlc(module, cfg, count=False, **kw)
        if not r.violated:
            sys.stderr.write(r.out[-3000:])
            raise Infra("negative configuration %s/%s was not rejected by TLC" % (module, cfg))
        return r

    # ---------------------------------------------------------------- graph export
    def export_graph(self, module, cfg, cfg_text=None, timeout=900, extra_files=None):
        """Run a Gen* config whose ACTION_CONSTRAINT prints one EDGE line per transition."""
        files = dict(extra_files or {})
        if cfg_text:
            files[cfg + ".cfg"] = cfg_text
        r = self.tlc(module, cfg, workers=1, timeout=timeout, files=files)
        if r.errors:
            sys.stderr.write(r.out[-3000:])
            raise Infra("graph export %s/%s failed" % (module, cfg))
        ids, edges, init = {}, [], None
        for line in r.out.splitlines():
            if not line.startswith('"[\\"EDGE'):
                continue
            rec = json.loads(json.loads(line))
            s, t = canon_state(rec[1]), canon_state(rec[-1])
            a = ids.setdefault(s, len(ids))
            b = ids.setdefault(t, len(ids))
            if init is None:
                init = a
            edges.append((a, tuple(rec[2:-1]), b))
        return Graph(len(ids), edges, init if init is not None else 0), r

    # ---------------------------------------------------------------- harness
    def build(self):
        if self.fpcheck:
            return self.fpcheck
        env = dict(os.environ, **GOENV)
        shutil.copy(os.path.join(REPO, "go.sum"), os.path.join(HARNESS, "go.sum"))
        out = os.path.join(self.tmp, "fpcheck")
        t = time.time()
        p = subprocess.run(["go", "build", "-tags", "verif", "-o", out, "./cmd/fpcheck"], cwd=HARNESS,
                           env=env, capture_output=True, text=True)
        if p.returncode != 0:
            sys.stderr.write(p.stdout + p.stderr)
            raise Infra("harness does not build against /repo (go build -tags verif)")
        self.extra["harness_build_s"] = round(time.time() - t, 1)
        self.fpcheck = out
        return out

    def build_race(self):
        """The same harness built with the Go race detector (used for unscheduled parallel runs)."""
        if getattr(self, "fpcheck_race", None):
            return self.fpcheck_race
        env = dict(os.environ, **GOENV)
        shutil.copy(os.path.join(REPO, "go.sum"), os.path.join(HARNESS, "go.sum"))
        out = os.path.join(self.tmp, "fpcheck-race")
        p = subprocess.run(["go", "build", "-race", "-tags", "verif", "-o", out, "./cmd/fpcheck"], cwd=HARNESS,
                           env=env, capture_output=True, text=True)
        if p.returncode != 0:
            sys.stderr.write(p.stdout + p.stderr)
            raise Infra("harness does not build with -race")
        self.fpcheck_race = out
        return out

    def race_run(self, args, timeout=600):
        """Run the race-instrumented harness; returns the race / fatal-error reports that name csgura/fp code."""
        exe = self.build_race()
        env = dict(os.environ, GORACE="halt_on_error=1 exitcode=66", **GOENV)
        p = subprocess.run(["timeout", str(timeout), exe] + args, env=env, capture_output=True, text=True)
        text = p.stderr
        if p.returncode == 0:
            return None
        if p.returncode == 124:
            raise Infra("race run timed out")
        if "DATA RACE" in text or "fatal error: concurrent map" in text:
            frames = re.findall(r"(github\.com/csgura/fp[^\s(]*)\(", text)
            return dict(kind="data-race" if "DATA RACE" in text else "fatal-concurrent-map",
                        frames=frames[:6], report=text[:3000])
        if re.search(r"^panic: ", text, re.M):
            # the library itself panicked under real concurrency (an index computed from one snapshot used on another, ...):
            # attributed to csgura/fp only when the goroutine that panicked is inside its code
            first = text[text.index("panic: "):]
            block = "\n\n".join(first.split("\n\n")[:2])       # the message and the stack of the goroutine that panicked
            frames = re.findall(r"(github\.com/csgura/fp[^\s(]*)\(", block)
            if frames:
                return dict(kind="panic", frames=frames[:6], report=first[:3000])
        sys.stderr.write(text[-3000:])
        raise Infra("race run failed with exit %d" % p.returncode)

    def harness(self, cmd, cases, name=None, timeout=1800, extra=None):
        """Run  fpcheck <cmd> cases.json out.ndjson ; returns (summary, out_path)."""
        self.build()
        self.nrun += 1
        name = name or "%s-%d" % (cmd, self.nrun)
        cj = os.path.join(self.tmp, name + ".cases.json")
        out = os.path.join(self.tmp, name + ".ndjson")
        with open(cj, "w") as fh:
            json.dump(cases, fh)
        env = dict(os.environ, **GOENV)
        p = subprocess.run(["timeout", str(timeout), self.fpcheck, cmd, cj, out] + (extra or []),
                           env=env, capture_output=True, text=True)
        if p.returncode == 3 and os.path.exists(out):
            # a case did not return within its deadline: the harness logged a Timeout event (which no specification
            # explains) and stopped; the cases after it were not run
            n_ev, trs = 0, set()
            for line in open(out):
                n_ev += 1
                try:
                    trs.add(json.loads(line)["tr"])
                except Exception:
                    pass
            self.extra["harness_case_timeout"] = self.extra.get("harness_case_timeout", 0) + 1
            return dict(events=n_ev, traces=len(trs), timed_out=True), out
        if p.returncode != 0:
            e = Infra("harness %s exited with %d" % (cmd, p.returncode))
            e.stderr = p.stderr
            e.returncode = p.returncode
            if not getattr(self, "quiet_harness_failure", False):
                sys.stderr.write(p.stdout[-2000:] + p.stderr[-4000:])
            raise e
        try:
            summary = json.loads(p.stdout.strip().splitlines()[-1])
        except Exception:
            raise Infra("harness %s printed no summary" % cmd)
        return summary, out

    # ---------------------------------------------------------------- trace validation
    def validate(self, trace_path, module, cfg=None, max_rejects=25, timeout=1800, deque=False):
        """Leg (C): TLC accepts or rejects the recorded executions.  Returns the list of rejected
        trace ids with the line that could not be explained; accepted traces are counted."""
        # read trace by trace and validate in chunks of at most CHUNK lines: TLC holds the whole deserialized trace in memory
        CHUNK = 250000
        rejected = []
        total = 0
        chunk, cur_tr = [], None
        with open(trace_path) as fh:
            for raw in fh:
                l = raw.rstrip("\n")
                if not l.strip():
                    continue
                tr = json.loads(l)["tr"]
                if tr != cur_tr:
                    total += 1
                    if len(chunk) >= CHUNK and len(rejected) < max_rejects:
                        self._validate_chunk(chunk, module, cfg, max_rejects, timeout, deque, rejected)
                        chunk = []
                    cur_tr = tr
                if len(rejected) < max_rejects:
                    chunk.append((tr, l))
        if chunk and len(rejected) < max_rejects:
            self._validate_chunk(chunk, module, cfg, max_rejects, timeout, deque, rejected)
        self.cov["traces_validated_against_impl"] += total - len(rejected)
        return rejected

    def _validate_chunk(self, lines, module, cfg, max_rejects, timeout, deque, rejected):
        while lines:
            data = "\n".join(l for _, l in lines) + "\n"
            r = self.tlc(module, cfg or module, workers=1, timeout=timeout,
                         files={"trace.ndjson": data}, deque=deque)
            if r.highwater is None:
                sys.stderr.write(r.out[-4000:])
                raise Infra("trace validation %s produced no verdict" % module)
            hw, n = r.highwater
            bad_inv = r.violated
            if hw == n + 1 and not bad_inv:
                break
            if bad_inv:
                # an invariant of the property-level specification failed while explaining the trace:
                # the offending line is the last one consumed on the counterexample
                m = re.findall(r"\bl = (\d+)", r.out)
                idx = (int(m[-1]) - 1) if m else hw
            else:
                idx = hw
            idx = max(1, min(idx, n))
            tr = lines[idx - 1][0]
            first = next(i for i, (t, _) in enumerate(lines) if t == tr)
            mine = [json.loads(l) for t, l in lines if t == tr]
            rejected.append(dict(tr=tr, line=json.loads(lines[idx - 1][1]), index_in_trace=idx - 1 - first,
                                 events=mine, invariant=bad_inv[0] if bad_inv else None))
            # traces are contiguous and everything before the rejected one was accepted
            last = max(i for i, (t, _) in enumerate(lines) if t == tr)
            lines = lines[last + 1:]
            if len(rejected) >= max_rejects:
                break

    # ---------------------------------------------------------------- verdicts
    def report(self, signature, replay_obj, what):
        """Report a confirmed disagreement between the real code and the property-level oracle."""
        for k in self.known:
            if k.get("status") == "fixed":
                continue
            if re.search(k["match"], signature):
                if k["id"] not in self.known_seen:
                    self.known_seen.append(k["id"])
                    print("KNOWN-FINDING: property=%s %s" % (self.prop, k["what"]))
                return False
        digest = hashlib.sha1(json.dumps(replay_obj, sort_keys=True, default=str).encode()).hexdigest()[:12]
        path = os.path.join(VERIF, "replays", "%s-%s.json" % (self.prop, digest))
        os.makedirs(os.path.dirname(path), exist_ok=True)
        replay_obj = dict(replay_obj, property=self.prop, signature=signature, what=what, seed=self.seed,
                          rerun="bin/check %s --replay %s" % (self.prop, path))
        with open(path, "w") as fh:
            json.dump(replay_obj, fh, indent=1, default=str)
        if not any(s == signature for s, _ in self.violations):
            print("VIOLATION property=%s replay=%s" % (self.prop, path))
            print("  " + what)
        self.violations.append((signature, path))
        return True

    def sample(self, obj, limit=4):
        if len(self.cov["samples"]) < limit:
            self.cov["samples"].append(obj)

    def finish(self):
        wall = time.time() - self.t0
        cov = dict(self.cov)
        cov.update(self.extra)
        cov["tlc_runs"] = self.tlc_runs
        cov["known_findings_seen"] = self.known_seen
        if not cov["samples"]:
            cov["samples"] = ["(no case explored)"]
        ev = dict(property_id=self.prop, tier=self.tier, seed=self.seed, level=self.level, coverage=cov,
                  assumptions=self.assumptions, wall_s=round(wall, 1), violations=len(self.violations))
        if not self.replay:
            os.makedirs(os.path.join(VERIF, "evidence"), exist_ok=True)
            with open(os.path.join(VERIF, "evidence", self.prop + ".json"), "w") as fh:
                json.dump(ev, fh, indent=1, default=str)
        self.cleanup()
        print("%s %s tier=%s seed=%d states=%d transitions=%d traces=%d evaluations=%d wall=%.0fs" % (
            self.prop, "VIOLATED" if self.violations else "ok", self.tier, self.seed, cov["states"],
            cov["transitions"], cov["traces_validated_against_impl"], cov["evaluations"], wall))
        return 1 if self.violations else 0

    def cleanup(self):
        if not self.keep:
            shutil.rmtree(self.tmp, ignore_errors=True)
        else:
            print("kept", self.tmp)


class Graph:
    """Labelled state graph exported from TLC."""

    def __init__(self, n, edges, init):
        self.n, self.edges, self.init = n, edges, init
        self.out = {}
        for i, (a, lab, b) in enumerate(edges):
            self.out.setdefault(a, []).append(i)

    def edge_cover(self, rng, max_paths=None, max_len=200, want=None):
        """Paths from the initial state that together traverse every (wanted) edge at least once.  One breadth-first tree
        from the initial state gives a shortest prefix to every state; each path is the prefix to the source of a still
        uncovered edge, that edge, and then a greedy walk over further uncovered edges.  Linear in edges x path length
        (the earlier version searched the graph again for every path, which took hours on the thorough graphs)."""
        from collections import deque
        wanted = [i for i in range(len(self.edges)) if want is None or want(self.edges[i][1])]
        uncovered = set(wanted)
        parent, depth, q = {self.init: None}, {self.init: 0}, deque([self.init])
        while q:
            u = q.popleft()
            for i in self.out.get(u, []):
                v = self.edges[i][2]
                if v not in parent:
                    parent[v] = (u, i)
                    depth[v] = depth[u] + 1
                    q.append(v)
        unc_out = {}
        for i in uncovered:
            unc_out.setdefault(self.edges[i][0], set()).add(i)
        # deepest sources first: the greedy tail of a path then covers edges near the end of the protocol, and the
        # prefixes cover many shallow edges on the way
        order = sorted((i for i in wanted if self.edges[i][0] in parent), key=lambda i: (-depth[self.edges[i][0]], rng.random()))
        paths = []

        def take(i, path):
            path.append(i)
            if i in uncovered:
                uncovered.discard(i)
                unc_out[self.edges[i][0]].discard(i)

        for e in order:
            if e not in uncovered:
                continue
            if max_paths is not None and len(paths) >= max_paths:
                break
            prefix, v = [], self.edges[e][0]
            while parent[v] is not None:
                u, i = parent[v]
                prefix.append(i)
                v = u
            prefix.reverse()
            if len(prefix) + 1 > max_len:
                continue
            path = []
            for i in prefix:
                take(i, path)
            take(e, path)
            s = self.edges[e][2]
            while len(path) < max_len and unc_out.get(s):
                i = rng.choice(sorted(unc_out[s]))
                take(i, path)
                s = self.edges[i][2]
            paths.append([self.edges[i][1] for i in path])
        return paths, len(uncovered)

    def random_walks(self, rng, count, max_len=200):
        paths = []
        for _ in range(count):
            s, path = self.init, []
            while len(path) < max_len and self.out.get(s):
                e = rng.choice(self.out[s])
                path.append(self.edges[e][1])
                s = self.edges[e][2]
            paths.append(path)
        return paths


_canon_cache = {}


def canon_state(text):
    """TLC prints the fields of equal records in different orders: canonicalise before comparing."""
    c = _canon_cache.get(text)
    if c is None:
        import tlaval
        c = _canon_cache[text] = tlaval.canon(tlaval.parse(text))
    return c


def load_known(prop):
    path = os.path.join(VERIF, "known_findings.json")
    if not os.path.exists(path):
        return []
    return [k for k in json.load(open(path)).get("findings", []) if k.get("property") == prop]


def main(run, prop, level="model_checking"):
    c = Check(prop, level)
    try:
        run(c)
        rc = c.finish()
    except Infra as e:
        c.cleanup()
        print("ERROR (infrastructure, no verdict) %s: %s" % (prop, e))
        rc = 2
    except Exception:
        c.cleanup()
        import traceback
        traceback.print_exc()
        print("ERROR (infrastructure, no verdict) %s: driver exception" % prop)
        rc = 2
    sys.exit(rc)
