------------------------------- MODULE Arity -------------------------------
(* Arity-indexed families (C14): what each member must do with position-tagged arguments.  A member of arity n is called with
   arguments of pairwise distinct types carrying their position 1..n; W(fam, n) is the sequence of tags the defining equation
   delivers (to the wrapped function, into the result product, ...) and Calls(fam, n) how often user functions run.
   MCArity checks that every wiring is what its family promises: a permutation, a projection or a pipeline - nothing dropped,
   duplicated or reordered - for every arity. *)
EXTENDS Integers, Sequences, FiniteSets, TLC

Iota(a, b) == [i \in 1..(b - a + 1) |-> a + i - 1]
Rev(s) == [i \in 1..Len(s) |-> s[Len(s) + 1 - i]]
RECURSIVE Flat(_, _)
Flat(F(_), n) == IF n = 0 THEN <<>> ELSE Flat(F, n - 1) \o F(n)

Identity == {"as.Tuple", "Tuple.Unapply", "as.HList", "product.Tuple", "product.TupleFromHList", "product.Lift", "product.Flatten",
             "hlist.Of", "hlist.Case", "hlist.Lift", "hlist.Rift", "as.Func", "as.Supplier", "as.Curried", "as.UnTupled",
             "curried.Func", "curried.Revert", "curried.SlipL", "unit.Func", "fn1.Merge", "hash.Tuple",
             \* the labelled products (fp.LabelledN of fp.Named components): construction, conversion from / to hlists, Unapply
             "as.Labelled", "as.HListLabelled", "product.LabelledFromHList", "Labelled.Unapply"}
Shifted == {"curried.Flip", "curried.FlipApply", "Func.ApplyFirst", "Func.ApplyLast"}     \* members of arity n act on n + 1 arguments
Families == Identity \cup Shifted \cup {"Tuple.Head", "Tuple.Last", "Tuple.Init", "Tuple.Tail", "Labelled.Head", "Labelled.Last", "Labelled.Init", "Labelled.Tail", "hlist.Reverse", "curried.Compose", "fp.Compose",
                                        "fp.Id", "eq.Tuple", "ord.Tuple", "monoid.Tuple", "clone.Tuple"}

W(fam, n) ==
  CASE fam \in Identity -> Iota(1, n)
    [] fam \in Shifted  -> Iota(1, n + 1)
    [] fam \in {"Tuple.Head", "Labelled.Head"} -> <<1>>
    [] fam \in {"Tuple.Last", "Labelled.Last"} -> <<n>>
    [] fam \in {"Tuple.Init", "Labelled.Init"} -> Iota(1, n - 1)
    [] fam \in {"Tuple.Tail", "Labelled.Tail"} -> Iota(2, n)
    [] fam = "hlist.Reverse" -> Rev(Iota(1, n))
    [] fam = "curried.Compose" -> Iota(1, n) \o <<99>>          \* g(f(a1..an)): f saw 1..n, then g ran
    [] fam = "fp.Compose" -> Iota(1, n) \o <<n + 1>>            \* f1 ; f2 ; .. ; fn in this order, each incrementing the tag
    [] fam = "fp.Id" -> <<n>>                                   \* IdN returns its last argument
    [] fam = "eq.Tuple" -> LET F(i) == <<i, i, 100 + i>> IN Flat(F, n)        \* instance i compares (a.Ii, b.Ii), in that order
    \* pairs differing at position i only: a < b and not b < a; then pairs where position i is greater and position i+1
    \* smaller than in the base tuple: position i decides (not less / less)
    [] fam = "ord.Tuple" -> LET F(i) == <<1, 0>>  G(i) == <<0, 1>> IN Flat(F, n) \o Flat(G, n - 1)
    [] fam = "monoid.Tuple" -> [i \in 1..n |-> i * 1000 + 100 + i]             \* instance i combines (a.Ii, b.Ii), in that order
    [] fam = "clone.Tuple" -> [i \in 1..n |-> i + 500]
Calls(fam, n) ==
  CASE fam \in {"as.Tuple", "Tuple.Unapply", "Tuple.Head", "Tuple.Last", "Tuple.Init", "Tuple.Tail", "as.HList", "product.Tuple",
                "product.TupleFromHList", "product.Flatten", "hlist.Of", "hlist.Reverse", "fp.Id", "ord.Tuple",
                "as.Labelled", "as.HListLabelled", "product.LabelledFromHList", "Labelled.Unapply", "Labelled.Head", "Labelled.Last",
                "Labelled.Init", "Labelled.Tail"} -> 1       \* no user function involved
    [] fam = "curried.Compose" -> 2
    [] fam \in {"fp.Compose", "fn1.Merge", "eq.Tuple", "hash.Tuple", "monoid.Tuple", "clone.Tuple"} -> n
    [] OTHER -> 1                                               \* the wrapped function runs exactly once

\* ---- the wirings are what the families promise ----
VARIABLES fam, n
avars == <<fam, n>>
AInit == fam \in Families /\ n \in 2..21
ASpec == AInit /\ [][UNCHANGED avars]_avars
Range(s) == {s[i] : i \in DOMAIN s}
NoDup(s) == Cardinality(Range(s)) = Len(s)
IdentityIsPermutation == fam \in Identity => W(fam, n) = Iota(1, n)
NothingDroppedOrDuplicated ==
  /\ fam \in Identity \cup {"hlist.Reverse"} => (Range(W(fam, n)) = 1..n /\ NoDup(W(fam, n)))
  /\ fam \in Shifted => (Range(W(fam, n)) = 1..(n + 1) /\ NoDup(W(fam, n)))
  /\ fam \in {"Tuple.Init", "Tuple.Tail"} => (NoDup(W(fam, n)) /\ Len(W(fam, n)) = n - 1 /\ Range(W(fam, n)) \subseteq 1..n)
  /\ fam \in {"monoid.Tuple", "clone.Tuple"} => (NoDup(W(fam, n)) /\ Len(W(fam, n)) = n)
ReverseIsInvolution == fam = "hlist.Reverse" => Rev(W(fam, n)) = Iota(1, n)
InitTailOverlap == SubSeq(W("Tuple.Init", n), 2, n - 1) = SubSeq(W("Tuple.Tail", n), 1, n - 2)
=============================================================================
