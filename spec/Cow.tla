--------------------------------- MODULE Cow ---------------------------------
(* Implementation-shaped model of mutable.CopyOnWriteMap at the granularity of its yield points
   (first line of load() and of copyOnWrite(), both outside the lock):
     - every read (Get/Size/Iterator) is one block: an atomic Load of the snapshot - except on a
       zero-value map, where load() saw nil and parks in front of lock.Lock() (block "bi": lock,
       re-read, store an empty map if still nil);
     - every write (Updated/Removed/UpdatedWith) is one block: lock; derive; Store; unlock;
     - ComputeIf is three blocks:  read ; compute + locked write ; (read again).
   ComputeMode = "unlocked" is check-then-act as first found (unconditional store, result re-read
   afterwards), "recheck" re-examines the key under the lock and returns the value decided there.
   The module checks that it refines CowAbs (linearizability) for the programs in Prog. *)
EXTENDS Integers, Sequences, FiniteSets, TLC

CONSTANTS Threads, Keys, KeyOrder,
          ProgSpace,      \* set of programs: thread -> sequence of operation records (fields as CowAbs!NoCall)
          ComputeMode,    \* "unlocked" | "recheck"
          InitMode        \* lazy initialisation in load(): "recheck" (re-read under the lock) | "norecheck"

VARIABLES Prog,    \* the program being executed (chosen initially, never changes)
          snapM,   \* the published snapshot
          ip,      \* thread -> index of the current operation
          st,      \* thread -> "idle" | "b1" | "bi" | "b2" | "b3" | "ret"
          res,     \* thread -> result of the current operation once known
          tmp,     \* thread -> value computed by the user function
          inited,  \* the atomic value holds a map (false: still nil, zero-value CopyOnWriteMap)
          act
vars == <<Prog, snapM, ip, st, res, tmp, inited, act>>
View == <<Prog, snapM, ip, st, res, tmp, inited>>

A == INSTANCE CowAbs WITH m <- snapM, pend <- [t \in Threads |-> 0], lin <- [t \in Threads |-> 0]
Effect(c, mm) == A!Effect(c, mm)
Pred(fn, x) == A!Pred(fn, x)

Cur(t) == Prog[t][ip[t]]
Finished(t) == ip[t] > Len(Prog[t])
Act(a, t) == act' = [a |-> a, t |-> t]

Init == /\ Prog \in ProgSpace
        /\ snapM = [k \in Keys |-> 0] /\ ip = [t \in Threads |-> 1] /\ st = [t \in Threads |-> "idle"]
        /\ res = [t \in Threads |-> "none"] /\ tmp = [t \in Threads |-> 0] /\ inited = FALSE /\ act = [a |-> "init", t |-> "-"]

\* the call begins: up to the first yield point
CallOp(t) ==
  /\ ~Finished(t) /\ st[t] = "idle"
  /\ st' = [st EXCEPT ![t] = "b1"] /\ Act("Call", t)
  /\ UNCHANGED <<Prog, snapM, ip, res, tmp, inited>>

IsCompute(c) == c.op \in {"cia", "cif"}
ReadsFirst(c) == c.op \in {"get", "size", "iter", "cia", "cif"}     \* begins with r.load()
EmptyM == [k \in Keys |-> 0]

\* what one block does, as a function of the stage and of the snapshot cur it works on:
\* new snapshot, result so far, next stage
Outcome(c, stage, cur) ==
  IF ~IsCompute(c)
  THEN LET e == Effect(c, cur) IN [m |-> e.m, res |-> e.res, st |-> "ret"]
  ELSE CASE stage = "b1" ->      \* ret := r.Get(k).FilterNot(pred)
              IF cur[c.k] # 0 /\ ~Pred(c.fn, cur[c.k])
              THEN [m |-> cur, res |-> ToString(cur[c.k]), st |-> "ret"]
              ELSE [m |-> cur, res |-> "none", st |-> "b2"]
         [] stage = "b2" ->      \* nv := f(); r.copyOnWrite(...)
              IF ComputeMode = "recheck" /\ cur[c.k] # 0 /\ ~Pred(c.fn, cur[c.k])
              THEN [m |-> cur, res |-> ToString(cur[c.k]), st |-> "ret"]
              ELSE [m |-> [cur EXCEPT ![c.k] = c.v], res |-> ToString(c.v),
                    st |-> IF ComputeMode = "recheck" THEN "ret" ELSE "b3"]
         [] stage = "b3" ->      \* return r.Get(k).Get()       (panics when the key has gone)
              [m |-> cur, res |-> IF cur[c.k] = 0 THEN "panic" ELSE ToString(cur[c.k]), st |-> "ret"]

\* one block of code between two yield points
Block(t) ==
  /\ ~Finished(t) /\ st[t] \in {"b1", "bi", "b2", "b3"}
  /\ Act("Block", t) /\ UNCHANGED <<Prog, ip, tmp>>
  /\ LET c == Cur(t) IN
     IF st[t] = "b1" /\ ReadsFirst(c) /\ ~inited
     THEN \* load(): the atomic Load returned nil; the thread parks in front of lock.Lock()
          /\ st' = [st EXCEPT ![t] = "bi"] /\ UNCHANGED <<snapM, res, inited>>
     ELSE LET stage == IF st[t] = "bi" THEN "b1" ELSE st[t]
              \* lazy initialisation under the lock: store an empty map unless somebody else has
              cur == IF st[t] = "bi" /\ (InitMode = "norecheck" \/ ~inited) THEN EmptyM ELSE snapM
              o == Outcome(c, stage, cur)
          IN /\ snapM' = o.m
             /\ res' = [res EXCEPT ![t] = o.res]
             /\ st' = [st EXCEPT ![t] = o.st]
             /\ inited' = (inited \/ st[t] = "bi" \/ o.m # snapM \/ ~ReadsFirst(c) \/ stage = "b2")

RetOp(t) ==
  /\ ~Finished(t) /\ st[t] = "ret"
  /\ st' = [st EXCEPT ![t] = "idle"] /\ ip' = [ip EXCEPT ![t] = @ + 1]
  /\ res' = [res EXCEPT ![t] = "none"] /\ Act("Ret", t)
  /\ UNCHANGED <<Prog, snapM, tmp, inited>>

Next == \E t \in Threads : CallOp(t) \/ Block(t) \/ RetOp(t)
Spec == Init /\ [][Next]_vars

NoPanic == \A t \in Threads : res[t] # "panic"

\* ---------------- refinement: every behaviour is a behaviour of the atomic map ----------------
\* The linearization point is the block that fixes the result, except for a ComputeIf that passes
\* its first check: that one takes effect in its locked block.
Abs == INSTANCE CowAbs WITH
         m <- snapM,
         pend <- [t \in Threads |-> IF Finished(t) \/ st[t] = "idle" THEN A!NoCall ELSE Cur(t)],
         lin <- [t \in Threads |-> IF Finished(t) THEN "none" ELSE res[t]]
AbsNext == \E t \in Threads : (\E c \in UNION {{Prog[u][i] : i \in DOMAIN Prog[u]} : u \in Threads} : Abs!Call(t, c))
                              \/ Abs!Lin(t) \/ (\E r \in {res[u] : u \in Threads} : Abs!Ret(t, r))
Refines == [][AbsNext]_(Abs!cvars)
=============================================================================
