--------------------------------- MODULE Cow ---------------------------------
(* Implementation-shaped model of mutable.CopyOnWriteMap at the granularity of its yield points
   (first line of load() and of copyOnWrite(), both outside the lock):
     - every read (Get/Size/Iterator) is one block: an atomic Load of the snapshot;
     - every write (Updated/Removed/UpdatedWith) is one block: lock; derive; Store; unlock;
     - ComputeIf is three blocks:  read ; compute + locked write ; (read again).
   ComputeMode = "unlocked" is check-then-act as first found (unconditional store, result re-read
   afterwards), "recheck" re-examines the key under the lock and returns the value decided there.
   The module checks that it refines CowAbs (linearizability) for the programs in Prog. *)
EXTENDS Integers, Sequences, FiniteSets, TLC

CONSTANTS Threads, Keys, KeyOrder,
          ProgSpace,      \* set of programs: thread -> sequence of operation records (fields as CowAbs!NoCall)
          ComputeMode     \* "unlocked" | "recheck"

VARIABLES Prog,    \* the program being executed (chosen initially, never changes)
          snapM,   \* the published snapshot
          ip,      \* thread -> index of the current operation
          st,      \* thread -> "idle" | "b1" | "b2" | "b3" | "ret"
          res,     \* thread -> result of the current operation once known
          tmp,     \* thread -> value computed by the user function
          act
vars == <<Prog, snapM, ip, st, res, tmp, act>>
View == <<Prog, snapM, ip, st, res, tmp>>

A == INSTANCE CowAbs WITH m <- snapM, pend <- [t \in Threads |-> 0], lin <- [t \in Threads |-> 0]
Effect(c, mm) == A!Effect(c, mm)
Pred(fn, x) == A!Pred(fn, x)

Cur(t) == Prog[t][ip[t]]
Finished(t) == ip[t] > Len(Prog[t])
Act(a, t) == act' = [a |-> a, t |-> t]

Init == /\ Prog \in ProgSpace
        /\ snapM = [k \in Keys |-> 0] /\ ip = [t \in Threads |-> 1] /\ st = [t \in Threads |-> "idle"]
        /\ res = [t \in Threads |-> "none"] /\ tmp = [t \in Threads |-> 0] /\ act = [a |-> "init", t |-> "-"]

\* the call begins: up to the first yield point
CallOp(t) ==
  /\ ~Finished(t) /\ st[t] = "idle"
  /\ st' = [st EXCEPT ![t] = "b1"] /\ Act("Call", t)
  /\ UNCHANGED <<Prog, snapM, ip, res, tmp>>

IsCompute(c) == c.op \in {"cia", "cif"}

\* one block of code between two yield points
Block(t) ==
  /\ ~Finished(t) /\ st[t] \in {"b1", "b2", "b3"}
  /\ Act("Block", t) /\ UNCHANGED <<Prog, ip>>
  /\ LET c == Cur(t) IN
     IF ~IsCompute(c)
     THEN LET e == Effect(c, snapM) IN
          /\ snapM' = e.m /\ res' = [res EXCEPT ![t] = e.res]
          /\ st' = [st EXCEPT ![t] = "ret"] /\ UNCHANGED tmp
     ELSE CASE st[t] = "b1" ->      \* ret := r.Get(k).FilterNot(pred)
                 IF snapM[c.k] # 0 /\ ~Pred(c.fn, snapM[c.k])
                 THEN /\ res' = [res EXCEPT ![t] = ToString(snapM[c.k])]
                      /\ st' = [st EXCEPT ![t] = "ret"] /\ UNCHANGED <<snapM, tmp>>
                 ELSE /\ st' = [st EXCEPT ![t] = "b2"] /\ UNCHANGED <<snapM, res, tmp>>
            [] st[t] = "b2" ->      \* nv := f(); r.copyOnWrite(...)
                 IF ComputeMode = "recheck" /\ snapM[c.k] # 0 /\ ~Pred(c.fn, snapM[c.k])
                 THEN /\ res' = [res EXCEPT ![t] = ToString(snapM[c.k])]
                      /\ st' = [st EXCEPT ![t] = "ret"] /\ UNCHANGED <<snapM, tmp>>
                 ELSE /\ snapM' = [snapM EXCEPT ![c.k] = c.v]
                      /\ IF ComputeMode = "recheck"
                         THEN res' = [res EXCEPT ![t] = ToString(c.v)] /\ st' = [st EXCEPT ![t] = "ret"]
                         ELSE res' = [res EXCEPT ![t] = ToString(c.v)] /\ st' = [st EXCEPT ![t] = "b3"]
                      /\ UNCHANGED tmp
            [] st[t] = "b3" ->      \* return r.Get(k).Get()       (panics when the key has gone)
                 /\ res' = [res EXCEPT ![t] = IF snapM[c.k] = 0 THEN "panic" ELSE ToString(snapM[c.k])]
                 /\ st' = [st EXCEPT ![t] = "ret"] /\ UNCHANGED <<snapM, tmp>>

RetOp(t) ==
  /\ ~Finished(t) /\ st[t] = "ret"
  /\ st' = [st EXCEPT ![t] = "idle"] /\ ip' = [ip EXCEPT ![t] = @ + 1]
  /\ res' = [res EXCEPT ![t] = "none"] /\ Act("Ret", t)
  /\ UNCHANGED <<Prog, snapM, tmp>>

Next == \E t \in Threads : CallOp(t) \/ Block(t) \/ RetOp(t)
Spec == Init /\ [][Next]_vars

NoPanic == \A t \in Threads : res[t] # "panic"

\* ---------------- refinement: every behaviour is a behaviour of the atomic map ----------------
\* The linearization point is the block that fixes the result, except for a ComputeIf that passes
\* its first check: that one takes effect in its locked block.
Abs == INSTANCE CowAbs WITH
         m <- snapM,
         pend <- [t \in Threads |-> IF Finished(t) \/ st[t] = "idle" THEN A!NoCall ELSE Cur(t)],
         lin <- [t \in Threads |-> IF Finished(t) THEN "none" ELSE res[t]]
AbsNext == \E t \in Threads : (\E c \in UNION {{Prog[u][i] : i \in DOMAIN Prog[u]} : u \in Threads} : Abs!Call(t, c))
                              \/ Abs!Lin(t) \/ (\E r \in {res[u] : u \in Threads} : Abs!Ret(t, r))
Refines == [][AbsNext]_(Abs!cvars)
=============================================================================
