------------------------------- MODULE CowAbs -------------------------------
(* Property-level specification of mutable.CopyOnWriteMap (C19): a sequential map to which every
   operation is applied atomically at one instant (Lin) between its Call and its Ret.

   Results are strings so that one variable can hold the result of any operation:
   Get/ComputeIf*: the value ("0" = absent); Size: the count; Iterator: the whole snapshot
   "a=1,b=2,"; updates: "ok".  An operation that panics has no explanation in this
   specification. *)
EXTENDS Integers, Sequences, FiniteSets, TLC

CONSTANTS Threads, Keys, KeyOrder   \* KeyOrder: the keys as a sequence (for printing snapshots)

VARIABLES m,      \* the map: key -> value, 0 = absent
          pend,   \* thread -> the operation it is executing, or NoCall
          lin     \* thread -> result fixed at the linearization point, or "none"

cvars == <<m, pend, lin>>

NoCall == [op |-> "none", k |-> "-", k2 |-> "-", v |-> 0, fn |-> "-"]
OpNames == {"get", "size", "iter", "put", "del", "del2", "upw", "cia", "cif"}

Remap(fn, cur, v) == CASE fn = "inc"  -> cur + 1
                       [] fn = "del"  -> 0
                       [] fn = "keep" -> cur
                       [] fn = "set"  -> v
                       [] OTHER -> cur
Pred(fn, x) == CASE fn = "always" -> TRUE
                 [] fn = "odd" -> x % 2 = 1
                 [] OTHER -> FALSE          \* "never": ComputeIfAbsent

RECURSIVE Snap(_, _)
Snap(mm, i) == IF i > Len(KeyOrder) THEN ""
               ELSE LET k == KeyOrder[i] IN
                    (IF mm[k] # 0 THEN k \o "=" \o ToString(mm[k]) \o "," ELSE "") \o Snap(mm, i + 1)
Size(mm) == Cardinality({k \in Keys : mm[k] # 0})

\* the sequential semantics: new map and result of operation c applied to map mm
Effect(c, mm) ==
  CASE c.op = "get"  -> [m |-> mm, res |-> ToString(mm[c.k])]
    [] c.op = "size" -> [m |-> mm, res |-> ToString(Size(mm))]
    [] c.op = "iter" -> [m |-> mm, res |-> Snap(mm, 1)]
    [] c.op = "put"  -> [m |-> [mm EXCEPT ![c.k] = c.v], res |-> "ok"]
    [] c.op = "del"  -> [m |-> [mm EXCEPT ![c.k] = 0], res |-> "ok"]
    [] c.op = "del2" -> [m |-> [mm EXCEPT ![c.k] = 0, ![c.k2] = 0], res |-> "ok"]
    [] c.op = "upw"  -> [m |-> [mm EXCEPT ![c.k] = Remap(c.fn, mm[c.k], c.v)], res |-> "ok"]
    [] c.op \in {"cia", "cif"} ->
         IF mm[c.k] # 0 /\ ~Pred(c.fn, mm[c.k])
         THEN [m |-> mm, res |-> ToString(mm[c.k])]
         ELSE [m |-> [mm EXCEPT ![c.k] = c.v], res |-> ToString(c.v)]

CInit == m = [k \in Keys |-> 0] /\ pend = [t \in Threads |-> NoCall] /\ lin = [t \in Threads |-> "none"]
CReset == m' = [k \in Keys |-> 0] /\ pend' = [t \in Threads |-> NoCall] /\ lin' = [t \in Threads |-> "none"]

Call(t, c) ==
  /\ pend[t] = NoCall /\ c.op \in OpNames
  /\ pend' = [pend EXCEPT ![t] = c]
  /\ UNCHANGED <<m, lin>>

Lin(t) ==
  /\ pend[t] # NoCall /\ lin[t] = "none"
  /\ LET e == Effect(pend[t], m) IN
     /\ m' = e.m
     /\ lin' = [lin EXCEPT ![t] = e.res]
  /\ UNCHANGED pend

Ret(t, res) ==
  /\ pend[t] # NoCall /\ lin[t] = res
  /\ pend' = [pend EXCEPT ![t] = NoCall]
  /\ lin' = [lin EXCEPT ![t] = "none"]
  /\ UNCHANGED m
=============================================================================
