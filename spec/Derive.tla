------------------------------- MODULE Derive -------------------------------
(* What gombok @fp.Derive must produce (C08).

   1. Resolution.  For a field type with candidate instances, the documented precedence (README 6.1) picks the instance declared
      in the working package, then the one in the package of the type, then the one of the derive package.
   2. Composition.  The instance of a struct is built from the instances of its fields through the generic representation
      (a tuple up to 21 fields, a chain of hlist.Cons beyond), converted with ContraMap (Eq, Ord, Hashable), IMap (Monoid) or
      Generic (Clone).  The model below composes field instances exactly that way - head instance and tail instance, one Cons at a
      time - and TLC checks for every choice of field instances that the result is the field-wise one the property names:
      the conjunction of the field equalities, a hash that respects it, the lexicographic order in declaration order, the
      field-by-field monoid with the fields' identities. *)
EXTENDS Integers, Sequences, FiniteSets, TLC

\* ---------------- 1. resolution ----------------
Resolve(c) == IF c.local THEN "local" ELSE IF c.typepkg THEN "typepkg" ELSE "derive"
ClsName(cls) == CASE cls = "eq" -> "Eq" [] cls = "ord" -> "Ord" [] cls = "hash" -> "Hashable" [] cls = "monoid" -> "Monoid" [] cls = "clone" -> "Clone"
\* the use counter of the instance that must be chosen / of the one that must be shadowed
Counter(where, cls, ty) == (IF where = "typepkg" THEN "other." ELSE "") \o ClsName(cls) \o ty
Chosen(cls, c) == Counter(Resolve(c), cls, c.ty)
Shadowed(cls, c) == IF c.local /\ c.typepkg THEN {Counter("typepkg", cls, c.ty)} ELSE {}
\* Ord and Hashable instances embed an Eq: evaluating them may also count the Eq instance of the same origin
Embedded(cls, c) == IF cls \in {"ord", "hash"} THEN {Counter(Resolve(c), "eq", c.ty)} ELSE {}

\* ---------------- 2. composition ----------------
Dom == 0..2
\* field instances: equality is identity or "same parity"; the order is ascending or descending on the equality classes;
\* the monoid is addition modulo 3 or maximum
EqKinds == {"id", "par"}
OrdKinds == {"asc", "desc"}
MonKinds == {"add", "max"}
Cls(k, v) == IF k = "par" THEN v % 2 ELSE v
FEq(k, a, b) == Cls(k, a) = Cls(k, b)
FLess(k, o, a, b) == IF o = "asc" THEN Cls(k, a) < Cls(k, b) ELSE Cls(k, a) > Cls(k, b)
FHash(k, a) == Cls(k, a) + 1
FEmpty(m) == 0
FComb(m, a, b) == IF m = "add" THEN (a + b) % 3 ELSE IF a > b THEN a ELSE b

\* the Cons-by-Cons composition (what eq.HCons / ord.HCons / hash.HCons / monoid.HCons compute), on suffixes starting at i
\* (on vectors of field verdicts - feq[i]: field i equal, fless[i]: field i less - so that the trace specification can apply the
\* same composition to the verdicts of the real field instances)
RECURSIVE CEqV(_, _), CLessV(_, _, _), CHash(_, _, _), CComb(_, _, _, _)
CEqV(feq, i) == IF i > Len(feq) THEN TRUE ELSE feq[i] /\ CEqV(feq, i + 1)
CLessV(feq, fless, i) == IF i > Len(feq) THEN FALSE ELSE fless[i] \/ (feq[i] /\ CLessV(feq, fless, i + 1))
CEq(ks, a, b, i) == CEqV([j \in DOMAIN ks |-> FEq(ks[j], a[j], b[j])], i)
CLess(ks, os, a, b, i) == CLessV([j \in DOMAIN ks |-> FEq(ks[j], a[j], b[j])], [j \in DOMAIN ks |-> FLess(ks[j], os[j], a[j], b[j])], i)
CHash(ks, a, i) == IF i > Len(ks) THEN 17 ELSE (31 * CHash(ks, a, i + 1) + FHash(ks[i], a[i])) % 1009
CComb(ms, a, b, i) == IF i > Len(ms) THEN <<>> ELSE <<FComb(ms[i], a[i], b[i])>> \o CComb(ms, a, b, i + 1)

\* the field-wise meaning the property names
FieldwiseEq(ks, a, b) == \A i \in DOMAIN ks : FEq(ks[i], a[i], b[i])
Lexicographic(ks, os, a, b) == \E i \in DOMAIN ks : (\A j \in 1..(i - 1) : FEq(ks[j], a[j], b[j])) /\ FLess(ks[i], os[i], a[i], b[i])
FieldwiseComb(ms, a, b) == [i \in DOMAIN ms |-> FComb(ms[i], a[i], b[i])]

\* one model-checking case: field instance kinds and three values
VARIABLES ks, os, ms, va, vb, vc
dvars == <<ks, os, ms, va, vb, vc>>
CONSTANT MaxNF
NF == 1..MaxNF
DInit == \E n \in NF : /\ ks \in [1..n -> EqKinds] /\ os \in [1..n -> OrdKinds] /\ ms \in [1..n -> MonKinds]
                       /\ va \in [1..n -> Dom] /\ vb \in [1..n -> Dom] /\ vc \in [1..n -> Dom]
DNext == UNCHANGED dvars
DSpec == DInit /\ [][DNext]_dvars
EqIsConjunction == CEq(ks, va, vb, 1) = FieldwiseEq(ks, va, vb)
HashRespectsEq == CEq(ks, va, vb, 1) => CHash(ks, va, 1) = CHash(ks, vb, 1)
OrdIsLexicographic == CLess(ks, os, va, vb, 1) = Lexicographic(ks, os, va, vb)
OrdLawful == /\ ~CLess(ks, os, va, va, 1)
             /\ (CLess(ks, os, va, vb, 1) /\ CLess(ks, os, vb, vc, 1) => CLess(ks, os, va, vc, 1))
             /\ (CEq(ks, va, vb, 1) <=> (~CLess(ks, os, va, vb, 1) /\ ~CLess(ks, os, vb, va, 1)))
MonoidIsFieldwise == CComb(ms, va, vb, 1) = FieldwiseComb(ms, va, vb)
MonoidLawful == /\ CComb(ms, CComb(ms, va, vb, 1), vc, 1) = CComb(ms, va, CComb(ms, vb, vc, 1), 1)
                /\ CComb(ms, [i \in DOMAIN ms |-> FEmpty(ms[i])], va, 1) = va
                /\ CComb(ms, va, [i \in DOMAIN ms |-> FEmpty(ms[i])], 1) = va
=============================================================================
