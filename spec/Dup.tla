---- MODULE Dup ----
(* Implementation-shaped model of iterator.Duplicate (iterator/iterator_op.go): one source, a queue of
   elements one side has seen and the other has not, and the leftAhead flag; HasNext/Next of both sides
   under the mutex, so each call is one atomic action.  Checked for every interleaving of calls on the two
   sides (including repeated HasNext and Next on an exhausted side): each side delivers a prefix of the
   source in order - the whole source if it keeps pulling -, HasNext tells the truth, Next panics only
   when that side is exhausted, and every source element is pulled exactly once. *)
EXTENDS Naturals, Sequences, TLC
CONSTANTS SrcSpace, MaxCalls
VARIABLE Src
VARIABLES pos,        \* number of elements pulled from the source (r.Next calls)
          queue, leftAhead,
          outL, outR,  \* what each side has delivered so far
          last,        \* last call and its result
          ncalls
vars == <<Src, pos, queue, leftAhead, outL, outR, last, ncalls>>
Init == Src \in SrcSpace /\ pos = 0 /\ queue = <<>> /\ leftAhead = TRUE /\ outL = <<>> /\ outR = <<>> /\ last = [c |-> "init"] /\ ncalls = 0
SrcHasNext == pos < Len(Src)

LHasNext == /\ ncalls < MaxCalls /\ ncalls' = ncalls + 1
            /\ last' = [c |-> "LHasNext", r |-> IF leftAhead \/ Len(queue) = 0 THEN SrcHasNext ELSE TRUE]
            /\ UNCHANGED <<Src, pos, queue, leftAhead, outL, outR>>
RHasNext == /\ ncalls < MaxCalls /\ ncalls' = ncalls + 1
            /\ last' = [c |-> "RHasNext", r |-> IF ~leftAhead \/ Len(queue) = 0 THEN SrcHasNext ELSE TRUE]
            /\ UNCHANGED <<Src, pos, queue, leftAhead, outL, outR>>
\* Next is only called after a true HasNext by a well-behaved client; the model also allows the bad call
LNext == /\ ncalls < MaxCalls /\ ncalls' = ncalls + 1
         /\ LET la == IF Len(queue) = 0 THEN TRUE ELSE leftAhead IN
            IF la
            THEN IF SrcHasNext
                 THEN /\ pos' = pos + 1 /\ queue' = Append(queue, Src[pos + 1]) /\ leftAhead' = TRUE
                      /\ outL' = Append(outL, Src[pos + 1]) /\ last' = [c |-> "LNext", r |-> Src[pos + 1], p |-> FALSE]
                      /\ UNCHANGED outR
                 ELSE /\ last' = [c |-> "LNext", r |-> 0, p |-> TRUE] /\ leftAhead' = la /\ UNCHANGED <<pos, queue, outL, outR>>
            ELSE /\ queue' = Tail(queue) /\ outL' = Append(outL, Head(queue)) /\ last' = [c |-> "LNext", r |-> Head(queue), p |-> FALSE]
                 /\ leftAhead' = la /\ UNCHANGED <<pos, outR>>
RNext == /\ ncalls < MaxCalls /\ ncalls' = ncalls + 1
         /\ LET la == IF Len(queue) = 0 THEN FALSE ELSE leftAhead IN
            IF ~la
            THEN IF SrcHasNext
                 THEN /\ pos' = pos + 1 /\ queue' = Append(queue, Src[pos + 1]) /\ leftAhead' = FALSE
                      /\ outR' = Append(outR, Src[pos + 1]) /\ last' = [c |-> "RNext", r |-> Src[pos + 1], p |-> FALSE]
                      /\ UNCHANGED outL
                 ELSE /\ last' = [c |-> "RNext", r |-> 0, p |-> TRUE] /\ leftAhead' = la /\ UNCHANGED <<pos, queue, outL, outR>>
            ELSE /\ queue' = Tail(queue) /\ outR' = Append(outR, Head(queue)) /\ last' = [c |-> "RNext", r |-> Head(queue), p |-> FALSE]
                 /\ leftAhead' = la /\ UNCHANGED <<pos, outL>>
Next == (LHasNext \/ RHasNext \/ LNext \/ RNext) /\ UNCHANGED Src
Spec == Init /\ [][Next]_vars

\* ---- abstract two-cursor specification ----
IsPrefix(s, t) == Len(s) <= Len(t) /\ SubSeq(t, 1, Len(s)) = s
Max(a, b) == IF a > b THEN a ELSE b
EachSidePrefix == IsPrefix(outL, Src) /\ IsPrefix(outR, Src)
PulledOnce == pos = Max(Len(outL), Len(outR))
HasNextRight == /\ last.c = "LHasNext" => last.r = (Len(outL) < Len(Src))
                /\ last.c = "RHasNext" => last.r = (Len(outR) < Len(Src))
PanicOnlyWhenExhausted == /\ (last.c = "LNext" /\ last.p) => Len(outL) = Len(Src)
                          /\ (last.c = "RNext" /\ last.p) => Len(outR) = Len(Src)
View == <<Src, pos, queue, leftAhead, outL, outR, last>>
====
