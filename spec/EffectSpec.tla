------------------------------- MODULE EffectSpec -------------------------------
(* Try / Option / Either (and, through their results, Future) as one effect: a value is
       [ok |-> TRUE, v |-> <<ints>>]   Success / Some / Right          or
       [ok |-> FALSE, e |-> error]     Failure / None / Left
   (every payload is a sequence of integers so that one program grammar covers every combinator).

   Part 1 - the monad:  U (unit) and FM (FlatMap) as the hand-written Go defines them, and every derived
            combinator BY ITS DEFINING EQUATION in U and FM (the Def operators).
   Part 2 - the oracle of C02, written independently of Part 1: the result of a combinator over operands
            m1..mN is the failure of the first failing operand, otherwise the success of the final step; the
            log lists the user callbacks that ran, in order - none positioned after a failure.
   MCEffect checks the monad laws for U/FM and that Part 1 and Part 2 agree on every argument tuple (C01, C02).
   Part 3 - Eval: the meaning of a whole program tree (what the harness builds with the real packages). *)
EXTENDS Integers, Sequences, FiniteSets, TLC

Ok(v)   == [ok |-> TRUE, v |-> v, e |-> "-"]
Fail(e) == [ok |-> FALSE, v |-> <<>>, e |-> e]
Scalar(v) == IF v = <<>> THEN 0 ELSE v[1]

\* ---------------- Part 1: U, FM and the defining equations ----------------
U(v) == Ok(v)
FM(m, K(_)) == IF m.ok THEN K(m.v) ELSE m
DefMap(m, F(_)) == FM(m, LAMBDA x : U(F(x)))
DefFlatten(mm) == IF mm.ok THEN mm.v ELSE Fail(mm.e)          \* the payload of mm is itself a value here
DefMap2(a, b, F(_, _)) == FM(a, LAMBDA x : FM(b, LAMBDA y : U(F(x, y))))
DefAp(mf, ma, App(_, _)) == FM(mf, LAMBDA f : DefMap(ma, LAMBDA x : App(f, x)))
DefZip(a, b) == DefMap2(a, b, LAMBDA x, y : x \o y)
RECURSIVE DefAll(_, _, _)
\* MapN / LiftAN / ZipN / Sequence: nested FlatMaps, left to right
DefAll(ms, i, acc) == IF i > Len(ms) THEN U(acc) ELSE FM(ms[i], LAMBDA x : DefAll(ms, i + 1, acc \o x))
\* (the recursive definitions of ComposeN, Traverse and FoldM take their continuations from MCEffect, see there)

\* ---------------- Part 2: the first-failure oracle with a call log ----------------
FirstFail(ms) == LET bad == {i \in 1..Len(ms) : ~ms[i].ok} IN
                 IF bad = {} THEN 0 ELSE CHOOSE i \in bad : \A j \in bad : i <= j
RECURSIVE Cat(_, _)
Cat(ms, i) == IF i > Len(ms) THEN <<>> ELSE ms[i].v \o Cat(ms, i + 1)
OracleAll(ms) == LET f == FirstFail(ms) IN IF f = 0 THEN Ok(Cat(ms, 1)) ELSE Fail(ms[f].e)

\* ---------------- Part 3: programs ----------------
MapInc(v) == [i \in DOMAIN v |-> v[i] + 1]
\* continuations: value -> value of the effect
Cont(c, v) == CASE c = "kinc"  -> Ok(MapInc(v))
                [] c = "kdup"  -> Ok(v \o v)
                [] c = "kfail" -> Fail("e2")
                [] c = "kodd"  -> IF Scalar(v) % 2 = 1 THEN Fail("e3") ELSE Ok(v)
                [] OTHER       -> Ok(v)
Conts == {"kinc", "kdup", "kfail", "kodd", "kid"}
\* the Option monad cannot carry an error: every failure is None
Norm(monad, r) == IF ~r.ok /\ monad = "option" THEN [r EXCEPT !.e = "none"] ELSE r

WithLog(r, lg) == [ok |-> r.ok, v |-> r.v, e |-> r.e, log |-> lg]
RECURSIVE Eval(_, _), EvalAll(_, _, _), ChainFrom(_, _, _, _, _), TravFrom(_, _, _, _, _, _), FoldFrom(_, _, _, _, _, _), SuppFrom(_, _, _, _, _, _, _)
\* operands are values: the caller has evaluated ALL of them, left to right, before the combinator runs
EvalAll(ps, monad, i) == IF i > Len(ps) THEN <<>> ELSE <<Eval(ps[i], monad)>> \o EvalAll(ps, monad, i + 1)
LogsOf(rs) == LET RECURSIVE L(_)
                  L(i) == IF i > Len(rs) THEN <<>> ELSE rs[i].log \o L(i + 1)
              IN L(1)
ChainFrom(m, lg, ks, i, monad) ==
  IF i > Len(ks) \/ ~m.ok THEN WithLog(m, lg)
  ELSE ChainFrom(Norm(monad, Cont(ks[i].c, m.v)), Append(lg, ks[i].id), ks, i + 1, monad)
TravFrom(xs, i, acc, lg, k, monad) ==
  IF i > Len(xs) THEN WithLog(Ok(acc), lg)
  ELSE LET r == Norm(monad, Cont(k.c, <<xs[i]>>)) IN
       IF ~r.ok THEN WithLog(r, Append(lg, k.id)) ELSE TravFrom(xs, i + 1, acc \o r.v, Append(lg, k.id), k, monad)
FoldFrom(xs, i, acc, lg, k, monad) ==
  IF i > Len(xs) THEN WithLog(Ok(acc), lg)
  ELSE LET r == Norm(monad, Cont(k.c, acc \o <<xs[i]>>)) IN
       IF ~r.ok THEN WithLog(r, Append(lg, k.id)) ELSE FoldFrom(xs, i + 1, r.v, Append(lg, k.id), k, monad)
\* ApFunc / builder steps.  A "val" step is a ready value (ApTry / ApOption / ApFuture): the caller evaluated its program
\* when it built the step, whatever happened before; "pure" is a plain value (Ap).  A "sup" step is a supplier
\* (ApTryFunc / ApOptionFunc / ApFutureFunc), "func" a supplier of a plain value (ApFunc): callbacks the library calls only
\* if nothing has failed yet - and then exactly once.
\* bad = the first failure so far (or NoFail).
NoFail == [ok |-> TRUE, v |-> <<>>, e |-> "-"]
\* ChainN builders also take steps computed from the value applied just before (prev): "kprev" (FlatMap: a continuation, named in
\* st.p.name, receives prev) and "mprev" (Map: a plain function of prev, here prev \o <<9>>) - callbacks like suppliers.
SuppFrom(steps, i, acc, lg, bad, prev, monad) ==
  IF i > Len(steps) THEN (IF bad.ok THEN WithLog(Ok(acc), lg) ELSE WithLog(bad, lg))
  ELSE LET st == steps[i]
           callback == st.t \in {"sup", "func", "kprev", "mprev"} IN
       IF callback /\ ~bad.ok THEN SuppFrom(steps, i + 1, acc, lg, bad, prev, monad)          \* never invoked
       ELSE LET r == CASE st.t = "kprev" -> WithLog(Norm(monad, Cont(st.p.name, prev)), <<>>)
                       [] st.t = "mprev" -> WithLog(Ok(prev \o <<9>>), <<>>)
                       [] OTHER -> Eval(st.p, monad)
                lg2 == IF callback THEN Append(lg, st.id) \o r.log ELSE lg \o r.log
                bad2 == IF bad.ok /\ ~r.ok THEN [ok |-> FALSE, v |-> <<>>, e |-> r.e] ELSE bad
            IN SuppFrom(steps, i + 1, acc \o r.v, lg2, bad2, IF r.ok THEN r.v ELSE prev, monad)

Eval(p, monad) ==
  CASE p.k = "unit" -> WithLog(Ok(p.v), <<>>)
    [] p.k = "fail" -> WithLog(Norm(monad, Fail(p.e)), <<>>)
    [] p.k = "all"  ->
         LET rs == EvalAll(p.args, monad, 1)
             lg == LogsOf(rs)
             r == OracleAll(rs) IN
         IF ~r.ok THEN WithLog(Norm(monad, r), lg)
         ELSE CASE p.fin.t = "pure" -> WithLog(Ok(r.v), Append(lg, p.fin.id))
                [] p.fin.t = "mon"  -> WithLog(Norm(monad, Cont(p.fin.c, r.v)), Append(lg, p.fin.id))
                [] OTHER            -> WithLog(r, lg)
    [] p.k = "chain" -> LET r == Eval(p.arg, monad) IN ChainFrom([ok |-> r.ok, v |-> r.v, e |-> r.e], r.log, p.ks, 1, monad)
    [] p.k = "trav"  -> TravFrom(p.xs, 1, <<>>, <<>>, p.kk, monad)
    [] p.k = "foldm" -> FoldFrom(p.xs, 1, <<>>, <<>>, p.kk, monad)
    [] p.k = "supp"  -> LET r == SuppFrom(p.steps, 1, <<>>, <<>>, NoFail, <<>>, monad) IN
                        IF r.ok THEN [r EXCEPT !.log = Append(@, p.fid)] ELSE r
    [] p.k = "rec"   -> \* Recover* / OrElse* / Or*: successes untouched, the handler runs only on failure
         LET r == Eval(p.arg, monad) IN
         IF r.ok THEN r
         \* (the isDefinedAt predicate of RecoverCase / RecoverCaseWith is a user callback too: it is consulted on a failure,
         \*  before the handler, and never on a success; it is logged as kk.id + 500)
         ELSE LET h == Norm(monad, Cont(p.kk.c, <<7>>))
                  pre == IF p.name \in {"RecoverCase", "RecoverCaseWith"} THEN <<p.kk.id + 500>> ELSE <<>>
              IN WithLog(h, r.log \o pre \o <<p.kk.id>>)
    [] p.k = "panic" -> \* try.Of / Call / CallUnit: a panic becomes a Failure exposing the panic value, a normal return a Success
         CASE p.mode = "panic" -> WithLog(Fail("panic:" \o p.pv), <<p.id>>)
           [] p.mode = "err"   -> WithLog(Fail("e1"), <<p.id>>)
           [] OTHER            -> WithLog(Ok(<<5>>), <<p.id>>)
=============================================================================
