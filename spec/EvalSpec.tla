------------------------------- MODULE EvalSpec -------------------------------
(* lazy.Eval (C16): programs, their strict meaning, and the trampoline of lazy/lazy.go as a state
   machine.

   A program is an expression tree (a record):
     [k |-> "done", v]              lazy.Done(v)
     [k |-> "call", id, v]          lazy.Call(thunk id returning v)           - a deferred computation
     [k |-> "tail", id, e]          lazy.TailCall(thunk id returning program e) - a deferred computation
     [k |-> "map", e, f]            e.Map(f)
     [k |-> "fm", e, c]             e.FlatMap(c)    c names a continuation  v |-> program  (Cont below)
     [k |-> "map2", a, b]           lazy.Map2(a, b, +)
   Strict(e) is its value under ordinary strict evaluation.  The trampoline: an Eval value is
   [first, next]; closures are data - <<"u", c>> a user continuation, <<"tc", id, e>> the closure of
   TailCall, <<"c", g, f>> the closure  v |-> g(v).FlatMap(f)  that Eval.FlatMap builds, <<"m2", b, v1>>
   and <<"mf", f>> / <<"add", v1>> the closures of Map / Map2.  One Run-loop iteration is one step.
   Deferred computations are memoised (sync.Once): `ran` counts executions per thunk id. *)
EXTENDS Integers, Sequences, FiniteSets, TLC

Fn(f, x) == CASE f = "inc" -> x + 1 [] f = "dbl" -> 2 * x [] f = "dec" -> x - 1 [] OTHER -> x
\* user continuations: value -> program
Cont(c, v) == CASE c = "kdone" -> [k |-> "done", v |-> v + 10]
                [] c = "kcall" -> [k |-> "call", id |-> 90 + (v % 3), v |-> v * 3]
                [] c = "ktail" -> [k |-> "tail", id |-> 95 + (v % 3), e |-> [k |-> "done", v |-> v - 7]]
                [] c = "kmap"  -> [k |-> "map", e |-> [k |-> "done", v |-> v], f |-> "dbl"]
                [] OTHER       -> [k |-> "done", v |-> v]
Conts == {"kdone", "kcall", "ktail", "kmap", "kid"}

RECURSIVE Strict(_)
Strict(e) == CASE e.k = "done" -> e.v
               [] e.k = "call" -> e.v
               [] e.k = "tail" -> Strict(e.e)
               [] e.k = "map"  -> Fn(e.f, Strict(e.e))
               [] e.k = "fm"   -> Strict(Cont(e.c, Strict(e.e)))
               [] e.k = "map2" -> Strict(e.a) + Strict(e.b)

\* ---------------- the library functions, building Eval values ----------------
NoK == <<"none">>
RECURSIVE Build(_)
FlatMapE(ev, f) == IF ev.next = NoK THEN [first |-> ev.first, next |-> f]
                   ELSE [first |-> ev.first, next |-> <<"c", ev.next, f>>]
Build(e) == CASE e.k = "done" -> [first |-> <<"val", e.v>>, next |-> NoK]
              [] e.k = "call" -> [first |-> <<"thunk", e.id, e.v>>, next |-> NoK]
              [] e.k = "tail" -> [first |-> <<"val", 0>>, next |-> <<"tc", e.id, e.e>>]
              [] e.k = "map"  -> FlatMapE(Build(e.e), <<"mf", e.f>>)
              [] e.k = "fm"   -> FlatMapE(Build(e.e), <<"u", e.c>>)
              [] e.k = "map2" -> FlatMapE(Build(e.a), <<"m2", e.b>>)

\* nested Go frames needed to apply a continuation closure
RECURSIVE KDepth(_)
KDepth(kk) == IF kk[1] = "c" THEN 1 + KDepth(kk[2]) ELSE 1

\* thunk ids forced when a first-function is evaluated / a continuation applied
FirstThunk(fst) == IF fst[1] = "thunk" THEN {fst[2]} ELSE {}
FirstVal(fst) == IF fst[1] = "thunk" THEN fst[3] ELSE fst[2]
RECURSIVE App(_, _), AppThunks(_, _)
App(kk, v) == CASE kk[1] = "u"   -> Build(Cont(kk[2], v))
                [] kk[1] = "tc"  -> Build(kk[3])
                [] kk[1] = "mf"  -> Build([k |-> "done", v |-> Fn(kk[2], v)])
                [] kk[1] = "m2"  -> FlatMapE(Build(kk[2]), <<"add", v>>)
                [] kk[1] = "add" -> Build([k |-> "done", v |-> kk[2] + v])
                [] kk[1] = "c"   -> FlatMapE(App(kk[2], v), kk[3])
AppThunks(kk, v) == CASE kk[1] = "tc" -> {kk[2]}
                      [] kk[1] = "c"  -> AppThunks(kk[2], v)
                      [] OTHER -> {}

VARIABLES prog,     \* the program
          t,        \* the current Eval value of the Run loop
          result,   \* <<"none">> or <<"val", v>>
          ran,      \* thunk id -> number of executions
          maxDepth, \* deepest continuation nesting applied so far
          steps
evars == <<prog, t, result, ran, maxDepth, steps>>

Ids == 0..99
EInit(p) == /\ prog = p /\ t = Build(p) /\ result = <<"none">> /\ ran = [i \in {} |-> 0]
            /\ maxDepth = 0 /\ steps = 0
Bump(r, S) == [i \in DOMAIN r \cup S |-> (IF i \in DOMAIN r THEN r[i] ELSE 0) + (IF i \in S THEN 1 ELSE 0)]
\* memoisation: a thunk that already ran is not executed again
Fresh(S) == {i \in S : i \notin DOMAIN ran}

\* one iteration of lazy.Run
Loop ==
  /\ result = <<"none">>
  /\ LET forced == FirstThunk(t.first) IN
     IF t.next = NoK
     THEN /\ result' = <<"val", FirstVal(t.first)>>
          /\ ran' = Bump(ran, Fresh(forced))
          /\ UNCHANGED <<t, maxDepth>>
     ELSE /\ t' = App(t.next, FirstVal(t.first))
          /\ ran' = Bump(ran, Fresh(forced \cup AppThunks(t.next, FirstVal(t.first))))
          /\ maxDepth' = IF KDepth(t.next) > maxDepth THEN KDepth(t.next) ELSE maxDepth
          /\ UNCHANGED result
  /\ steps' = steps + 1 /\ UNCHANGED prog
\* Get is called again on the same Eval value: the loop restarts, memoised thunks keep their results
Again == /\ result # <<"none">> /\ steps < 200
         /\ t' = Build(prog) /\ result' = <<"none">> /\ UNCHANGED <<prog, ran, maxDepth>> /\ steps' = steps + 1

ESpec(Progs) == (\E p \in Progs : EInit(p)) /\ [][Loop \/ Again]_evars /\ WF_evars(Loop)

\* ---------------- properties ----------------
Faithful == result # <<"none">> => result = <<"val", Strict(prog)>>
RunOnce  == \A i \in DOMAIN ran : ran[i] <= 1
Terminates == <>(result # <<"none">>)
=============================================================================
