------------------------------- MODULE FutureSpec -------------------------------
(* Future combinator expressions over source promises (C06).

   The value of an expression is its evaluation over fp.Try on the sources' results (EffectSpec).  PEval is
   that evaluation while some sources are still pending: left to right with short circuit, it yields
   "blocked" as soon as it needs a source that is not complete - and a value otherwise.  The derived
   future may complete only with PEval's value, only when PEval is not blocked ("never earlier"), at most
   once, and whenever the system is quiescent it IS complete iff PEval is not blocked ("as soon as").

   MCFuture explores an abstract machine in which the sources complete in any order and the derived
   future follows these rules, and checks the consequences (single assignment, schedule independence: the
   final value does not depend on the completion order, eventual completion once all needed sources are
   complete).  TraceFuture accepts or rejects executions of the real future package. *)
EXTENDS EffectSpec

Blocked == [st |-> "blocked", v |-> <<>>, e |-> "-"]
Pending == [st |-> "pending", v |-> <<>>, e |-> "-"]
OfTry(r) == [st |-> IF r.ok THEN "ok" ELSE "fail", v |-> r.v, e |-> r.e]
PSrc(i, done, res) == IF i \in done THEN OfTry(res[i]) ELSE Blocked
\* continuations of futures: an immediate future from the table, or ("ksrc") the last source's future
PCont(c, v, done, res) == IF c = "ksrc" THEN PSrc(Len(res), done, res) ELSE OfTry(Cont(c, v))

RECURSIVE PEval(_, _, _), PAll(_, _, _, _, _), PChain(_, _, _, _, _), PTrav(_, _, _, _, _, _), PFold(_, _, _, _, _, _), PSupp(_, _, _, _, _)
PAll(args, i, acc, done, res) ==
  IF i > Len(args) THEN [st |-> "ok", v |-> acc, e |-> "-"]
  ELSE LET r == PEval(args[i], done, res) IN IF r.st # "ok" THEN r ELSE PAll(args, i + 1, acc \o r.v, done, res)
PChain(r, ks, i, done, res) ==
  IF i > Len(ks) \/ r.st # "ok" THEN r ELSE PChain(PCont(ks[i].c, r.v, done, res), ks, i + 1, done, res)
PTrav(xs, i, acc, c, done, res) ==
  IF i > Len(xs) THEN [st |-> "ok", v |-> acc, e |-> "-"]
  ELSE LET r == PCont(c, <<xs[i]>>, done, res) IN IF r.st # "ok" THEN r ELSE PTrav(xs, i + 1, acc \o r.v, c, done, res)
PFold(xs, i, acc, c, done, res) ==
  IF i > Len(xs) THEN [st |-> "ok", v |-> acc, e |-> "-"]
  ELSE LET r == PCont(c, acc \o <<xs[i]>>, done, res) IN IF r.st # "ok" THEN r ELSE PFold(xs, i + 1, r.v, c, done, res)
PSupp(steps, i, acc, done, res) ==
  IF i > Len(steps) THEN [st |-> "ok", v |-> acc, e |-> "-"]
  ELSE LET r == PEval(steps[i].p, done, res) IN IF r.st # "ok" THEN r ELSE PSupp(steps, i + 1, acc \o r.v, done, res)

PEval(p, done, res) ==
  CASE p.k = "unit" -> [st |-> "ok", v |-> p.v, e |-> "-"]
    [] p.k = "fail" -> [st |-> "fail", v |-> <<>>, e |-> p.e]
    [] p.k = "src"  -> PSrc(p.id, done, res)
    [] p.k = "all"  -> LET r == PAll(p.args, 1, <<>>, done, res) IN
                       IF r.st # "ok" \/ p.fin.t # "mon" THEN r ELSE PCont(p.fin.c, r.v, done, res)
    [] p.k = "chain" -> PChain(PEval(p.arg, done, res), p.ks, 1, done, res)
    [] p.k = "trav"  -> PTrav(p.xs, 1, <<>>, p.kk.c, done, res)
    [] p.k = "foldm" -> PFold(p.xs, 1, <<>>, p.kk.c, done, res)
    [] p.k = "supp"  -> PSupp(p.steps, 1, <<>>, done, res)
    [] p.k = "rec"   -> LET r == PEval(p.arg, done, res) IN
                        IF r.st # "fail" THEN r ELSE PCont(p.kk.c, <<7>>, done, res)
    [] p.k = "panic" -> CASE p.mode = "panic" -> [st |-> "fail", v |-> <<>>, e |-> "panic:" \o p.pv]
                          [] p.mode = "err"   -> [st |-> "fail", v |-> <<>>, e |-> "e1"]
                          [] OTHER            -> [st |-> "ok", v |-> <<5>>, e |-> "-"]

\* ---------------- the abstract machine ----------------
VARIABLES prog, res, done, derived     \* derived: Pending or the completed value record
fvars == <<prog, res, done, derived>>
NSrc == Len(res)
Complete(i) == /\ i \in 1..NSrc /\ i \notin done
               /\ done' = done \cup {i} /\ UNCHANGED <<prog, res, derived>>
\* the derived future completes (a callback chain ran to its end)
Fire == /\ derived = Pending
        /\ PEval(prog, done, res).st # "blocked"
        /\ derived' = PEval(prog, done, res)
        /\ UNCHANGED <<prog, res, done>>
FNext == (\E i \in 1..NSrc : Complete(i)) \/ Fire
Quiescent == derived # Pending \/ PEval(prog, done, res).st = "blocked"

\* properties
SingleAssignment == [][derived # Pending => derived' = derived]_fvars
NeverEarly == derived # Pending => PEval(prog, done, res) = derived
\* schedule independence: whatever the completion order, the value is the evaluation over all results
FinalValue == derived # Pending => derived = PEval(prog, 1..NSrc, res)
\* monotonicity of the partial evaluation: completing more sources never changes a settled value
Monotone == \A i \in 1..NSrc : PEval(prog, done, res).st # "blocked" => PEval(prog, done \cup {i}, res) = PEval(prog, done, res)
EventuallyComplete == <>[](done = 1..NSrc => derived # Pending)
=============================================================================
