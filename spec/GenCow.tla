---- MODULE GenCow ----
(* Exports the labelled state graph of Cow.tla (one program at a time). *)
EXTENDS MCCow, Json
Emit == PrintT(ToJson(<<"EDGE", ToString(View), act'.a, act'.t, ToString(View')>>))
====
