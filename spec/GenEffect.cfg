SPECIFICATION GSpec
