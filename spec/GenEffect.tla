---- MODULE GenEffect ----
(* Exports a space of semantic programs (what is combined, which operands fail, which continuations are used) for
   replay on the real try / option / either packages: the harness runs each of them once with EVERY library function
   whose kind and arity fit. *)
EXTENDS EffectSpec, Json, SequencesExt
Node == [k |-> "unit", v |-> <<>>, e |-> "-", name |-> "", args |-> <<>>, fin |-> [t |-> "none", id |-> 0, c |-> "-"],
         ks |-> <<>>, xs |-> <<>>, steps |-> <<>>, fid |-> 0, mode |-> "-", pv |-> "-", id |-> 0]
Unit(v) == [Node EXCEPT !.k = "unit", !.v = v]
Bad(e)  == [Node EXCEPT !.k = "fail", !.e = e]
L0 == {Unit(<<>>), Unit(<<1>>), Unit(<<2, 3>>), Bad("e1"), Bad("e4")}
Fins == {[t |-> "pure", id |-> 1, c |-> "-"], [t |-> "none", id |-> 0, c |-> "-"]}
        \cup {[t |-> "mon", id |-> 1, c |-> c] : c \in {"kinc", "kfail", "kodd"}}
All(args, fin) == [Node EXCEPT !.k = "all", !.args = args, !.fin = fin]
Alls == {All(a, f) : a \in UNION {[1..n -> L0] : n \in 1..3}, f \in Fins}
Chain(arg, cs) == [k |-> "chain", v |-> <<>>, e |-> "-", name |-> "", args |-> <<>>, fin |-> [t |-> "none", id |-> 0, c |-> "-"],
                   arg |-> arg, ks |-> [i \in DOMAIN cs |-> [id |-> 10 + i, c |-> cs[i]]], xs |-> <<>>, steps |-> <<>>,
                   fid |-> 0, mode |-> "-", pv |-> "-", id |-> 0]
Chains == {Chain(a, cs) : a \in L0, cs \in UNION {[1..n -> Conts] : n \in 1..2}}
          \cup {Chain(a, cs) : a \in {Unit(<<1>>), Unit(<<2>>)}, cs \in [1..3 -> {"kinc", "kfail", "kodd"}]}
Xss == {<<>>, <<1>>, <<2>>, <<1, 2>>, <<2, 1, 4>>, <<2, 4, 1, 6>>, <<4, 6, 8>>}
Trav(kind, xs, c) == [k |-> kind, v |-> <<>>, e |-> "-", name |-> "", args |-> <<>>, fin |-> [t |-> "none", id |-> 0, c |-> "-"],
                      kk |-> [id |-> 30, c |-> c], ks |-> <<>>, xs |-> xs, steps |-> <<>>, fid |-> 0, mode |-> "-", pv |-> "-", id |-> 0]
Travs == {Trav(kd, xs, c) : kd \in {"trav", "foldm"}, xs \in Xss, c \in Conts}
SLeaf == {Unit(<<1>>), Bad("e1"), Bad("e4")}
Supp(sts) == [k |-> "supp", v |-> <<>>, e |-> "-", name |-> "", args |-> <<>>, fin |-> [t |-> "none", id |-> 0, c |-> "-"],
              ks |-> <<>>, xs |-> <<>>, steps |-> [i \in DOMAIN sts |-> [t |-> sts[i][1], p |-> sts[i][2], id |-> 20 + i]],
              fid |-> 50, mode |-> "-", pv |-> "-", id |-> 0]
Supps == {Supp(sts) : sts \in UNION {[1..n -> {"val", "sup"} \X SLeaf] : n \in 1..3}}
         \cup {Supp(sts) : sts \in UNION {[1..n -> ({"val", "sup"} \X {Unit(<<1>>), Bad("e1")}) \cup ({"pure", "func"} \X {Unit(<<2>>)})] : n \in 3..4}}
\* ChainN builders with steps computed from the previous value (FlatMap / Map stages), incl. as the last stage and after failures
KStep(c) == <<"kprev", [Unit(<<>>) EXCEPT !.name = c]>>
MStep == <<"mprev", Unit(<<>>)>>
ChainSupps == {Supp(sts) : sts \in UNION {[1..n -> ({"val", "sup"} \X {Unit(<<1>>), Bad("e1"), Bad("e4")}) \cup {KStep("kinc"), KStep("kfail"), MStep}] : n \in 2..3}}
Rec(arg, c) == [k |-> "rec", v |-> <<>>, e |-> "-", name |-> "", args |-> <<>>, fin |-> [t |-> "none", id |-> 0, c |-> "-"],
                arg |-> arg, kk |-> [id |-> 30, c |-> c], ks |-> <<>>, xs |-> <<>>, steps |-> <<>>, fid |-> 0, mode |-> "-", pv |-> "-", id |-> 0]
Recs == {Rec(a, c) : a \in L0, c \in Conts}
Panics == {[Node EXCEPT !.k = "panic", !.mode = m, !.pv = pv, !.id = 40] : m \in {"panic", "ok", "err"}, pv \in {"s:boom", "i:7", "e:errval"}}
\* one level of nesting: operands that are themselves combinators with callbacks
Nested == {All(<<a, b>>, [t |-> "pure", id |-> 1, c |-> "-"]) : a \in {Chain(x, <<c>>) : x \in {Unit(<<1>>), Bad("e1")}, c \in {"kinc", "kfail"}},
                                                               b \in {Chain(x, <<c>>) : x \in {Unit(<<2>>)}, c \in {"kdup", "kfail"}}}
Cases == Alls \cup Chains \cup Travs \cup Supps \cup {p \in ChainSupps : p.steps[1].t \in {"val", "sup"}} \cup Recs \cup Panics \cup Nested
ASSUME JsonSerialize("effectprogs.json", SetToSeq(Cases))
\* the exported programs are meaningful to the reference semantics (it evaluates every one of them)
ASSUME \A p \in Cases, mo \in {"try", "option", "either"} : Eval(p, mo).ok \in BOOLEAN
VARIABLE x
GSpec == x = 0 /\ [][x' = x]_x
====
