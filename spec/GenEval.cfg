SPECIFICATION GSpec
