---- MODULE GenEval ----
(* Exports the program space that MCEval model-checks, with the strict value of every program, so that
   the same programs can be replayed on the real lazy package. *)
EXTENDS MCEval, Json, SequencesExt
VARIABLE x
GInit == x = 0 /\ EInit([k |-> "done", v |-> 0])
GNext == x' = x /\ UNCHANGED evars
GSpec == GInit /\ [][GNext]_<<x, evars>>
Cases == {[prog |-> p, strict |-> Strict(p)] : p \in L2}
ASSUME JsonSerialize("evalprogs.json", SetToSeq(Cases))
====
