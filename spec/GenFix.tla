------------------------------- MODULE GenFix -------------------------------
(* The repository's code generators as transitions on the source tree (C13).

   tree maps every Go source file to the digest of its contents; a generated file is one that carries a "Code generated ...
   DO NOT EDIT" header.  A generator pass runs every go:generate directive of the repository (gombok, template_gen, monad_gen,
   built from the same tree) the way `go generate` does.  The committed tree must be a fixpoint: a pass changes no file, creates
   none and deletes none; every pass - whatever GOMAXPROCS and map-iteration seed the processes run with, and also a pass on top
   of an already regenerated tree - writes the same bytes; every directive succeeds; and every generated file is written by
   some directive (no orphans).

   The model is deliberately small: the substance is in what the harness observes (SHA-256 digests of the real tree before and
   after real generator runs).  TraceGenFix accepts the observed passes only if they are stuttering steps of this machine. *)
EXTENDS Integers, Sequences, FiniteSets, TLC

VARIABLES tree,      \* set of <<path, digest>>
          generated, \* set of paths carrying the generated header
          written,   \* paths written by some directive so far
          passes
gvars == <<tree, generated, written, passes>>

GInit(t, g) == tree = t /\ generated = g /\ written = {} /\ passes = 0
\* one full pass: out is the tree afterwards, w the set of files the generators wrote, failed the directives that failed
Pass(out, w, failed) ==
  /\ failed = {}
  /\ out = tree                      \* fixpoint: nothing changed, appeared or disappeared
  /\ w \subseteq {p[1] : p \in tree}
  /\ written' = written \cup w
  /\ passes' = passes + 1
  /\ UNCHANGED <<tree, generated>>
NoOrphans == generated \subseteq written
=============================================================================
