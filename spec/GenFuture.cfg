SPECIFICATION GSpec
