---- MODULE GenFuture ----
(* Exports the expression space that MCFuture model-checks, for replay on the real future package. *)
EXTENDS MCFuture, Json, SequencesExt
WithName(p) == p
ASSUME JsonSerialize("futureprogs.json", SetToSeq(L2))
VARIABLE x
GInit == x = 0 /\ prog = Src(1) /\ res = <<>> /\ done = {} /\ derived = Pending
GSpec == GInit /\ [][x' = x /\ UNCHANGED fvars]_<<x, fvars>>
====
