SPECIFICATION Spec
CONSTANTS
  Registrars = {"r1", "r2"}
  Completers = {"k1"}
  N0 = 3
  AppendMode = "copy"
VIEW View
ACTION_CONSTRAINT Emit
CHECK_DEADLOCK FALSE
