---- MODULE GenPromise ----
(* Exports the labelled state graph of Promise.tla: one line per explored transition. *)
EXTENDS Promise, Json
Emit == PrintT(ToJson(<<"EDGE", ToString(View), act'.a, act'.t, ToString(View')>>))
====
