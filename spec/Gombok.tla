------------------------------- MODULE Gombok -------------------------------
(* What gombok's @fp.Value output must provide for a struct declaration and what it must do (C07, C15).

   A shape is a sequence of fields [vis, opt]: visibility "private" | "public" | "underscore" | "embedded" (an embedded struct
   without fields does not count), opt = the field type is fp.Option.  The ACTIVE fields are all but the underscore ones and
   empty embedded structs; they form the tuple / labelled / map / mutable representations, in declaration order.
   Required API (for @fp.Value; @fp.Getter / @fp.With / @fp.Builder / @fp.String alone give the corresponding part):
   a getter and a WithF per private field; a Builder with a setter per private field; WithSomeF / WithNoneF and
   builder SomeF / NoneF per private Option field; AsMap/FromMap, AsMutable/AsImmutable, String always; AsTuple/FromTuple and
   Unapply/Apply while there are fewer active fields than internal/max.Product (22); AsLabelled/FromLabelled additionally need
   @fp.GenLabelled; MarshalJSON/UnmarshalJSON need @fp.Json.

   The second half is a small abstract machine: a value is a function from field index to an abstract field value, the API
   calls are actions on it, and the accessor / round-trip laws are invariants checked for every shape up to three fields. *)
EXTENDS Integers, Sequences, FiniteSets, TLC

MaxProduct == 22
Active(shape) == {i \in DOMAIN shape : shape[i].vis # "underscore" /\ ~shape[i].emptyembedded}
Private(shape) == {i \in DOMAIN shape : shape[i].vis = "private"}
HasTuple(shape) == Cardinality(Active(shape)) < MaxProduct /\ Cardinality(Active(shape)) >= 1
RequiredValue(shape, labelled, json) ==
  {"Builder", "AsMap", "FromMap", "AsMutable", "AsImmutable", "String"}
  \cup (IF HasTuple(shape) THEN {"AsTuple", "FromTuple", "Unapply", "Apply"} ELSE {})
  \cup (IF HasTuple(shape) /\ labelled THEN {"AsLabelled", "FromLabelled"} ELSE {})
  \cup (IF json THEN {"MarshalJSON", "UnmarshalJSON"} ELSE {})
\* anns: the annotations of the declaration ("Value", "Getter", "With", "Builder", "String", ...); the partial annotations give
\* the corresponding part of the API only, and any combination must still compile (checked by the Generate event)
Required(shape, anns, labelled, json) ==
  IF Active(shape) = {} THEN {} ELSE    \* nothing to represent: gombok emits nothing and no law has an instance
  (IF "Value" \in anns THEN RequiredValue(shape, labelled, json) ELSE {})
  \cup (IF "Builder" \in anns THEN {"Builder"} ELSE {})
  \cup (IF "String" \in anns THEN {"String"} ELSE {})
NeedGetter(anns) == "Value" \in anns \/ "Getter" \in anns
NeedWith(anns) == "Value" \in anns \/ "With" \in anns
NeedBuilder(anns) == "Value" \in anns \/ "Builder" \in anns

\* ---------------- the abstract machine ----------------
\* A value is a function from field index to an abstract field value.  The operators below are the meaning of the generated API;
\* the bounded model (MCGombok) instantiates them with small integers and checks the laws for every shape of up to three
\* fields, the trace specification (TraceGombok) evaluates the same operators on the digests of real field values logged by
\* the driver for every call it makes on gombok's output.
CONSTANTS SomeOf(_), NoneV          \* how an Option field value is written: Some(v), None
WithOps == {"with", "bset", "withsome", "bsome", "withnone", "bnone"}
ReprOps == {"tuple", "unapply", "labelled", "mutable", "map"}
OpWith(xx, i, v) == [xx EXCEPT ![i] = v]
\* the representations (tuple, Unapply arguments, labelled tuple, Mutable struct, map by field name - a None is left out of the
\* map) carry the active fields in declaration order; rebuilding from them on a zero builder restores exactly those
OpRepr(sh, xx, zz) == [i \in DOMAIN sh |-> IF i \in Active(sh) THEN xx[i] ELSE zz[i]]
OpEnabled(sh, op, i) == /\ op \in WithOps => i \in Private(sh)
                        /\ op \in {"withsome", "bsome", "withnone", "bnone"} => sh[i].opt
Expected(sh, op, xx, i, v, zz) ==
  CASE op \in {"with", "bset"} -> OpWith(xx, i, v)
    [] op \in {"withsome", "bsome"} -> OpWith(xx, i, SomeOf(v))
    [] op \in {"withnone", "bnone"} -> OpWith(xx, i, NoneV)
    [] op \in ReprOps -> OpRepr(sh, xx, zz)
    [] op = "builder" -> xx

FieldSpace == [vis : {"private", "public", "underscore"}, opt : BOOLEAN, emptyembedded : {FALSE}]
Shapes == UNION {[1..n -> FieldSpace] : n \in 1..3}
\* abstract field values of the bounded model: plain fields hold 0..1, Option fields NoneV or SomeOf(v)
Vals(f) == IF f.opt THEN {NoneV, SomeOf(0), SomeOf(1)} ELSE {0, 1}
VARIABLES shape, x, y, step
gbvars == <<shape, x, y, step>>
AllVals == {NoneV, 0, 1, SomeOf(0), SomeOf(1)}
Values(sh) == {v \in [DOMAIN sh -> AllVals] : \A i \in DOMAIN sh : v[i] \in Vals(sh[i])}
ZeroOf(f) == IF f.opt THEN NoneV ELSE 0
ZeroVal(sh) == [i \in DOMAIN sh |-> ZeroOf(sh[i])]
GInit == shape \in Shapes /\ x \in Values(shape) /\ y = x /\ step = <<"init", 0, 0>>
Do(op, i, v) == /\ OpEnabled(shape, op, i)
                /\ y' = Expected(shape, op, x, i, v, ZeroVal(shape))
                /\ step' = <<op, i, v>> /\ UNCHANGED <<shape, x>>
GNext == \/ \E i \in DOMAIN shape : \/ \E v \in Vals(shape[i]) : Do("with", i, v) \/ Do("bset", i, v)
                                    \/ \E v \in {0, 1} : Do("withsome", i, v) \/ Do("bsome", i, v)
                                    \/ Do("withnone", i, 0) \/ Do("bnone", i, 0)
         \/ \E op \in ReprOps \cup {"builder"} : Do(op, 0, 0)
GSpec == GInit /\ [][GNext]_gbvars

SameActive(u, v) == \A i \in Active(shape) : u[i] = v[i]
\* WithF(v) (and the builder setter) replaces field F and nothing else
WithLaw == step[1] \in WithOps =>
             /\ \A j \in DOMAIN shape : j # step[2] => y[j] = x[j]
             /\ (step[1] \in {"with", "bset"} => y[step[2]] = step[3])
             /\ (step[1] \in {"withsome", "bsome"} => y[step[2]] = SomeOf(step[3]))
             /\ (step[1] \in {"withnone", "bnone"} => y[step[2]] = NoneV)
\* the conversions are mutually inverse on the active fields and keep declaration order
RoundTripLaw == step[1] \in ReprOps => SameActive(x, y)
BuilderLaw == step[1] = "builder" => y = x
=============================================================================
