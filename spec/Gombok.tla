------------------------------- MODULE Gombok -------------------------------
(* What gombok's @fp.Value output must provide for a struct declaration and what it must do (C07, C15).

   A shape is a sequence of fields [vis, opt]: visibility "private" | "public" | "underscore" | "embedded" (an embedded struct
   without fields does not count), opt = the field type is fp.Option.  The ACTIVE fields are all but the underscore ones and
   empty embedded structs; they form the tuple / labelled / map / mutable representations, in declaration order.
   Required API (for @fp.Value; @fp.Getter / @fp.With / @fp.Builder / @fp.String alone give the corresponding part):
   a getter and a WithF per private field; a Builder with a setter per private field; WithSomeF / WithNoneF and
   builder SomeF / NoneF per private Option field; AsMap/FromMap, AsMutable/AsImmutable, String always; AsTuple/FromTuple and
   Unapply/Apply while there are fewer active fields than internal/max.Product (22); AsLabelled/FromLabelled additionally need
   @fp.GenLabelled; MarshalJSON/UnmarshalJSON need @fp.Json.

   The second half is a small abstract machine: a value is a function from field index to an abstract field value, the API
   calls are actions on it, and the accessor / round-trip laws are invariants checked for every shape up to three fields. *)
EXTENDS Integers, Sequences, FiniteSets, TLC

MaxProduct == 22
Active(shape) == {i \in DOMAIN shape : shape[i].vis # "underscore" /\ ~shape[i].emptyembedded}
Private(shape) == {i \in DOMAIN shape : shape[i].vis = "private"}
HasTuple(shape) == Cardinality(Active(shape)) < MaxProduct /\ Cardinality(Active(shape)) >= 1
RequiredValue(shape, labelled, json) ==
  {"Builder", "AsMap", "FromMap", "AsMutable", "AsImmutable", "String"}
  \cup (IF HasTuple(shape) THEN {"AsTuple", "FromTuple", "Unapply", "Apply"} ELSE {})
  \cup (IF HasTuple(shape) /\ labelled THEN {"AsLabelled", "FromLabelled"} ELSE {})
  \cup (IF json THEN {"MarshalJSON", "UnmarshalJSON"} ELSE {})
\* anns: the annotations of the declaration ("Value", "Getter", "With", "Builder", "String", ...); the partial annotations give
\* the corresponding part of the API only, and any combination must still compile (checked by the Generate event)
Required(shape, anns, labelled, json) ==
  IF Active(shape) = {} THEN {} ELSE    \* nothing to represent: gombok emits nothing and no law has an instance
  (IF "Value" \in anns THEN RequiredValue(shape, labelled, json) ELSE {})
  \cup (IF "Builder" \in anns THEN {"Builder"} ELSE {})
  \cup (IF "String" \in anns THEN {"String"} ELSE {})
NeedGetter(anns) == "Value" \in anns \/ "Getter" \in anns
NeedWith(anns) == "Value" \in anns \/ "With" \in anns
NeedBuilder(anns) == "Value" \in anns \/ "Builder" \in anns

\* ---------------- the abstract machine ----------------
FieldSpace == [vis : {"private", "public", "underscore"}, opt : BOOLEAN, emptyembedded : {FALSE}]
Shapes == UNION {[1..n -> FieldSpace] : n \in 1..3}
\* abstract field values: plain fields hold 0..1, Option fields None (= -1) or Some(v) (= v)
None == -1
Vals(f) == IF f.opt THEN {None, 0, 1} ELSE {0, 1}
VARIABLES shape, x, y, step
gbvars == <<shape, x, y, step>>
Values(sh) == {v \in [DOMAIN sh -> {None, 0, 1}] : \A i \in DOMAIN sh : v[i] \in Vals(sh[i])}
GInit == shape \in Shapes /\ x \in Values(shape) /\ y = x /\ step = <<"init", 0, 0>>
\* getters read, With replaces one private field
With(i, v) == i \in Private(shape) /\ v \in Vals(shape[i]) /\ y' = [x EXCEPT ![i] = v] /\ step' = <<"with", i, v>> /\ UNCHANGED <<shape, x>>
WithSome(i, v) == i \in Private(shape) /\ shape[i].opt /\ v \in {0, 1} /\ y' = [x EXCEPT ![i] = v] /\ step' = <<"withsome", i, v>> /\ UNCHANGED <<shape, x>>
WithNone(i) == i \in Private(shape) /\ shape[i].opt /\ y' = [x EXCEPT ![i] = None] /\ step' = <<"withnone", i, 0>> /\ UNCHANGED <<shape, x>>
\* the representations: tuple = the active fields in declaration order; map = the active fields by name, None omitted;
\* rebuilding from them on a zero builder restores every active field and leaves the others zero
ZeroOf(f) == IF f.opt THEN None ELSE 0
ViaTuple == /\ y' = [i \in DOMAIN shape |-> IF i \in Active(shape) THEN x[i] ELSE ZeroOf(shape[i])]
            /\ step' = <<"tuple", 0, 0>> /\ UNCHANGED <<shape, x>>
MapOf(v) == [i \in {j \in Active(shape) : ~(shape[j].opt /\ v[j] = None)} |-> v[i]]
ViaMap == /\ LET m == MapOf(x) IN
             y' = [i \in DOMAIN shape |-> IF i \in DOMAIN m THEN m[i] ELSE ZeroOf(shape[i])]
          /\ step' = <<"map", 0, 0>> /\ UNCHANGED <<shape, x>>
ViaBuilder == y' = x /\ step' = <<"builder", 0, 0>> /\ UNCHANGED <<shape, x>>
GNext == (\E i \in DOMAIN shape : (\E v \in {None, 0, 1} : With(i, v)) \/ (\E v \in {0, 1} : WithSome(i, v)) \/ WithNone(i))
         \/ ViaTuple \/ ViaMap \/ ViaBuilder
GSpec == GInit /\ [][GNext]_gbvars

SameActive(u, v) == \A i \in Active(shape) : u[i] = v[i]
\* WithF(v) replaces field F and nothing else
WithLaw == step[1] \in {"with", "withsome", "withnone"} =>
             /\ \A j \in DOMAIN shape : j # step[2] => y[j] = x[j]
             /\ (step[1] = "with" => y[step[2]] = step[3])
             /\ (step[1] = "withsome" => y[step[2]] = step[3])
             /\ (step[1] = "withnone" => y[step[2]] = None)
\* the conversions are mutually inverse on the active fields and keep declaration order
RoundTripLaw == step[1] \in {"tuple", "map"} => SameActive(x, y)
BuilderLaw == step[1] = "builder" => y = x
=============================================================================
