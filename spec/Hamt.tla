---- MODULE Hamt ----
(* Implementation-shaped model of the hash array mapped trie of immutable/map.go (C03, leg A):
   array node at the root (up to MaxArray entries, insertion order), bitmap-indexed nodes (up to
   MaxBitmap children), hash-array nodes (W slots with a count), value leaves and hash-collision
   leaves, mergeIntoNode, and the conversions between them in both directions.  A hash is the
   sequence of its Bits-wide fragments, least significant first (TLC integers are 32 bit); the
   hash function is chosen in the initial state from HashSpace, so one run covers every hasher
   of the space - colliding, constant and low-entropy ones included.

   Checked: the node invariants, and the refinement  Abs(trie) = reference map  through
   Get / Size / the iterator after every operation of every history up to MaxOps. *)
EXTENDS Naturals, Sequences, FiniteSets, TLC

CONSTANTS Keys, Vals,
          Bits,        \* mapNodeBits   (real: 5)
          MaxArray,    \* maxArrayMapSize (real: 8)
          MaxBitmap,   \* maxBitmapIndexedSize (real: 16)
          HashBits,    \* width of the hash (real: 32)
          HashSpace,   \* set of hash functions: Keys -> sequence of HashBits \div Bits fragments in 0..W-1
          MaxOps
VARIABLE hashf
Hash == hashf

W == 2^Bits
Frag(h, shift) == h[shift + 1]   \* a hash is its sequence of Bits-wide fragments, least significant first

NilN == [t |-> "nil"]
ValN(h, k, v) == [t |-> "val", h |-> h, k |-> k, v |-> v]

\* position of index i among the set bits
Pos(bits, i) == Cardinality({j \in bits : j < i})
InsertAt(s, p, x) == SubSeq(s, 1, p) \o <<x>> \o SubSeq(s, p+1, Len(s))     \* x becomes element p+1
RemoveAt(s, p) == SubSeq(s, 1, p-1) \o SubSeq(s, p+1, Len(s))
IndexOf(es, k) == IF \E i \in 1..Len(es) : es[i].k = k
                  THEN CHOOSE i \in 1..Len(es) : es[i].k = k /\ \A j \in 1..(i-1) : es[j].k # k
                  ELSE 0

\* ---------- get ----------
RECURSIVE Get(_,_,_,_)
Get(n, k, shift, h) ==
  CASE n.t = "nil" -> [ok |-> FALSE, v |-> 0]
    [] n.t = "arr" -> LET i == IndexOf(n.es, k) IN IF i = 0 THEN [ok |-> FALSE, v |-> 0] ELSE [ok |-> TRUE, v |-> n.es[i].v]
    [] n.t = "bm"  -> LET f == Frag(h, shift) IN
                      IF f \notin n.bits THEN [ok |-> FALSE, v |-> 0]
                      ELSE Get(n.ch[Pos(n.bits, f) + 1], k, shift + 1, h)
    [] n.t = "ha"  -> LET c == n.ch[Frag(h, shift)] IN
                      IF c.t = "nil" THEN [ok |-> FALSE, v |-> 0] ELSE Get(c, k, shift + 1, h)
    [] n.t = "val" -> IF n.k = k THEN [ok |-> TRUE, v |-> n.v] ELSE [ok |-> FALSE, v |-> 0]
    [] n.t = "col" -> LET i == IndexOf(n.es, k) IN IF i = 0 THEN [ok |-> FALSE, v |-> 0] ELSE [ok |-> TRUE, v |-> n.es[i].v]

\* ---------- mergeIntoNode ----------
RECURSIVE Merge(_,_,_,_,_)
Merge(leaf, shift, h, k, v) ==
  LET i1 == Frag(leaf.h, shift)
      i2 == Frag(h, shift) IN
  IF i1 = i2
  THEN [t |-> "bm", bits |-> {i1}, ch |-> <<Merge(leaf, shift + 1, h, k, v)>>]
  ELSE [t |-> "bm", bits |-> {i1, i2},
        ch |-> IF i1 < i2 THEN <<leaf, ValN(h, k, v)>> ELSE <<ValN(h, k, v), leaf>>]

\* ---------- set: returns [n, rz] ----------
RECURSIVE Set(_,_,_,_,_)
RECURSIVE Expand(_,_,_)
\* array node overflow: start from a value node for the new key, then re-insert the old entries at shift 0
Expand(node, es, i) == IF i > Len(es) THEN node
                       ELSE Expand(Set(node, es[i].k, es[i].v, 0, Hash[es[i].k]).n, es, i + 1)

Set(n, k, v, shift, h) ==
  CASE n.t = "arr" ->
         LET i == IndexOf(n.es, k) IN
         IF i = 0 /\ Len(n.es) >= MaxArray
         THEN [n |-> Expand(ValN(h, k, v), n.es, 1), rz |-> TRUE]
         ELSE IF i # 0 THEN [n |-> [n EXCEPT !.es[i] = [k |-> k, v |-> v]], rz |-> FALSE]
         ELSE [n |-> [n EXCEPT !.es = Append(@, [k |-> k, v |-> v])], rz |-> TRUE]
    [] n.t = "bm" ->
         LET f == Frag(h, shift)
             exists == f \in n.bits
             idx == Pos(n.bits, f)
             sub == IF exists THEN Set(n.ch[idx + 1], k, v, shift + 1, h)
                    ELSE [n |-> ValN(h, k, v), rz |-> TRUE] IN
         IF ~exists /\ Len(n.ch) > MaxBitmap
         THEN [n |-> [t |-> "ha", cnt |-> Len(n.ch) + 1,
                      ch |-> [j \in 0..(W-1) |-> IF j = f THEN sub.n
                                                 ELSE IF j \in n.bits THEN n.ch[Pos(n.bits, j) + 1] ELSE NilN]],
               rz |-> TRUE]
         ELSE IF exists THEN [n |-> [n EXCEPT !.ch[idx + 1] = sub.n], rz |-> sub.rz]
         ELSE [n |-> [t |-> "bm", bits |-> n.bits \cup {f}, ch |-> InsertAt(n.ch, idx, sub.n)], rz |-> TRUE]
    [] n.t = "ha" ->
         LET f == Frag(h, shift)
             c == n.ch[f] IN
         IF c.t = "nil"
         THEN [n |-> [n EXCEPT !.cnt = @ + 1, !.ch[f] = ValN(h, k, v)], rz |-> TRUE]
         ELSE LET sub == Set(c, k, v, shift + 1, h) IN [n |-> [n EXCEPT !.ch[f] = sub.n], rz |-> sub.rz]
    [] n.t = "val" ->
         IF n.k = k THEN [n |-> ValN(n.h, k, v), rz |-> FALSE]
         ELSE IF n.h # h THEN [n |-> Merge(n, shift, h, k, v), rz |-> TRUE]
         ELSE [n |-> [t |-> "col", h |-> h, es |-> <<[k |-> n.k, v |-> n.v], [k |-> k, v |-> v]>>], rz |-> TRUE]
    [] n.t = "col" ->
         IF n.h # h THEN [n |-> Merge(n, shift, h, k, v), rz |-> TRUE]
         ELSE LET i == IndexOf(n.es, k) IN
              IF i = 0 THEN [n |-> [n EXCEPT !.es = Append(@, [k |-> k, v |-> v])], rz |-> TRUE]
              ELSE [n |-> [n EXCEPT !.es[i] = [k |-> k, v |-> v]], rz |-> FALSE]

\* ---------- delete: returns [n, rz]; n = NilN when the node disappears ----------
RECURSIVE Del(_,_,_,_)
Del(n, k, shift, h) ==
  CASE n.t = "arr" ->
         LET i == IndexOf(n.es, k) IN
         IF i = 0 THEN [n |-> n, rz |-> FALSE]
         ELSE IF Len(n.es) = 1 THEN [n |-> NilN, rz |-> TRUE]
         ELSE [n |-> [n EXCEPT !.es = RemoveAt(@, i)], rz |-> TRUE]
    [] n.t = "bm" ->
         LET f == Frag(h, shift) IN
         IF f \notin n.bits THEN [n |-> n, rz |-> FALSE]
         ELSE LET idx == Pos(n.bits, f)
                  sub == Del(n.ch[idx + 1], k, shift + 1, h) IN
              IF ~sub.rz THEN [n |-> n, rz |-> FALSE]
              ELSE IF sub.n.t = "nil"
                   THEN IF Len(n.ch) = 1 THEN [n |-> NilN, rz |-> TRUE]
                        ELSE [n |-> [t |-> "bm", bits |-> n.bits \ {f}, ch |-> RemoveAt(n.ch, idx + 1)], rz |-> TRUE]
                   ELSE [n |-> [n EXCEPT !.ch[idx + 1] = sub.n], rz |-> TRUE]
    [] n.t = "ha" ->
         LET f == Frag(h, shift)
             c == n.ch[f] IN
         IF c.t = "nil" THEN [n |-> n, rz |-> FALSE]
         ELSE LET sub == Del(c, k, shift + 1, h) IN
              IF ~sub.rz THEN [n |-> n, rz |-> FALSE]
              ELSE IF sub.n.t = "nil" /\ n.cnt <= MaxBitmap
                   THEN LET bits == {j \in 0..(W-1) : j # f /\ n.ch[j].t # "nil"}
                            RECURSIVE Collect(_)
                            Collect(j) == IF j >= W THEN <<>>
                                          ELSE (IF j \in bits THEN <<n.ch[j]>> ELSE <<>>) \o Collect(j + 1)
                        IN [n |-> [t |-> "bm", bits |-> bits, ch |-> Collect(0)], rz |-> TRUE]
                   ELSE [n |-> [n EXCEPT !.ch[f] = sub.n, !.cnt = IF sub.n.t = "nil" THEN @ - 1 ELSE @], rz |-> TRUE]
    [] n.t = "val" -> IF n.k = k THEN [n |-> NilN, rz |-> TRUE] ELSE [n |-> n, rz |-> FALSE]
    [] n.t = "col" ->
         LET i == IndexOf(n.es, k) IN
         IF i = 0 THEN [n |-> n, rz |-> FALSE]
         ELSE IF Len(n.es) = 2
              THEN LET o == n.es[3 - i] IN [n |-> ValN(n.h, o.k, o.v), rz |-> TRUE]
              ELSE [n |-> [n EXCEPT !.es = RemoveAt(@, i)], rz |-> TRUE]

\* ---------- the hamt wrapper ----------
MSet(m, k, v) ==
  IF m.root.t = "nil" THEN [size |-> 1, root |-> [t |-> "arr", es |-> <<[k |-> k, v |-> v]>>]]
  ELSE LET r == Set(m.root, k, v, 0, Hash[k]) IN [size |-> IF r.rz THEN m.size + 1 ELSE m.size, root |-> r.n]
MDel(m, k) ==
  IF m.root.t = "nil" THEN m
  ELSE LET r == Del(m.root, k, 0, Hash[k]) IN IF ~r.rz THEN m ELSE [size |-> m.size - 1, root |-> r.n]
MGet(m, k) == IF m.root.t = "nil" THEN [ok |-> FALSE, v |-> 0] ELSE Get(m.root, k, 0, Hash[k])

\* ---------- iteration: entries in trie order ----------
RECURSIVE Entries(_)
RECURSIVE FlatSeq(_,_)
FlatSeq(s, i) == IF i > Len(s) THEN <<>> ELSE Entries(s[i]) \o FlatSeq(s, i + 1)
RECURSIVE FlatFun(_,_)
FlatFun(f, j) == IF j >= W THEN <<>> ELSE Entries(f[j]) \o FlatFun(f, j + 1)
Entries(n) ==
  CASE n.t = "nil" -> <<>>
    [] n.t = "arr" -> n.es
    [] n.t = "col" -> n.es
    [] n.t = "val" -> <<[k |-> n.k, v |-> n.v]>>
    [] n.t = "bm"  -> FlatSeq(n.ch, 1)
    [] n.t = "ha"  -> FlatFun(n.ch, 0)

\* ---------- structural invariants ----------
RECURSIVE WellFormed(_,_)
WellFormed(n, depth) ==
  CASE n.t = "nil" -> TRUE
    [] n.t = "arr" -> depth = 0 /\ Len(n.es) >= 1 /\ Len(n.es) <= MaxArray
    [] n.t = "val" -> n.h = Hash[n.k]
    [] n.t = "col" -> Len(n.es) >= 2 /\ (\A i \in 1..Len(n.es) : Hash[n.es[i].k] = n.h)
                      /\ (\A i, j \in 1..Len(n.es) : i # j => n.es[i].k # n.es[j].k)
    [] n.t = "bm"  -> Cardinality(n.bits) = Len(n.ch) /\ Len(n.ch) >= 1
                      /\ (\A i \in 1..Len(n.ch) : n.ch[i].t \notin {"nil", "arr"} /\ WellFormed(n.ch[i], depth + 1))
    [] n.t = "ha"  -> n.cnt = Cardinality({j \in 0..(W-1) : n.ch[j].t # "nil"})
                      /\ (\A j \in 0..(W-1) : n.ch[j].t # "arr" /\ WellFormed(n.ch[j], depth + 1))

\* ---------- the state machine: one map evolving, with its reference ----------
VARIABLES m, ref, nops, kinds, last
vars == <<hashf, m, ref, nops, kinds, last>>

RECURSIVE KindsOf(_)
KindsOf(n) == {n.t} \cup
   (CASE n.t = "bm" -> UNION {KindsOf(n.ch[i]) : i \in 1..Len(n.ch)}
      [] n.t = "ha" -> UNION {KindsOf(n.ch[j]) : j \in 0..(W-1)}
      [] OTHER -> {})

Init == hashf \in HashSpace /\ m = [size |-> 0, root |-> NilN] /\ ref = [k \in Keys |-> 0] /\ nops = 0 /\ kinds = {} /\ last = <<"init", 0, 0>>
Put(k, v) == last' = <<"put", k, v>> /\ nops < MaxOps /\ m' = MSet(m, k, v) /\ ref' = [ref EXCEPT ![k] = v] /\ nops' = nops + 1 /\ kinds' = kinds \cup KindsOf(m'.root) /\ UNCHANGED hashf
Rem(k) == last' = <<"rem", k, 0>> /\ nops < MaxOps /\ m' = MDel(m, k) /\ ref' = [ref EXCEPT ![k] = 0] /\ nops' = nops + 1 /\ kinds' = kinds \cup KindsOf(m'.root) /\ UNCHANGED hashf
Next == \E k \in Keys : (\E v \in Vals : Put(k, v)) \/ Rem(k)
Spec == Init /\ [][Next]_vars

\* ---------- refinement / property ----------
GetAgrees == \A k \in Keys : LET g == MGet(m, k) IN IF ref[k] = 0 THEN ~g.ok ELSE g.ok /\ g.v = ref[k]
SizeAgrees == m.size = Cardinality({k \in Keys : ref[k] # 0})
IterAgrees == LET es == Entries(m.root) IN
              /\ Len(es) = m.size
              /\ \A i \in 1..Len(es) : ref[es[i].k] = es[i].v
              /\ \A i, j \in 1..Len(es) : i # j => es[i].k # es[j].k
Structure == WellFormed(m.root, 0)
View == <<hashf, m, ref, nops>>
\* coverage probes (expected to be violated = reachable)
NeverHA == "ha" \notin kinds
NeverCol == "col" \notin kinds
====
