------------------------------- MODULE IterSpec -------------------------------
(* Property-level specification of fp.Iterator values (C20) and of lazy pipelines (C12).

   An iterator is its remaining output `rem`:  HasNext answers rem # <<>> and changes nothing,
   however often it is called; Next returns and removes the head; Next on an exhausted iterator
   panics and changes nothing.  The output of a pipeline of combinators over a source is the
   eager computation of SeqSpec (Ref).  Two-sided producers (Duplicate, Span, Partition) are two
   such iterators over one source.  Iterators of hash maps/sets are unordered: Next returns some
   remaining element.

   Demand (C12): after any call the source has been pulled at most
        max(pulled0, Need(demand)) + 2 * (number of stages)
   where pulled0 is what construction consumed (Drop is eager by definition), demand is the
   number of output elements the consumer has asked about so far, and Need(c) is the shortest
   source prefix whose eager output already has c elements - the whole source when there is no
   c-th element (only then must the source be read to its end). *)
EXTENDS SeqSpec, TLC

\* a stage is a record [t, n, p, f, lit]
StageOut(st, s) ==
  CASE st.t = "take"      -> STake(s, st.n)
    [] st.t = "drop"      -> SDrop(s, st.n)
    [] st.t = "tw"        -> STakeWhile(s, st.p)
    [] st.t = "dw"        -> SDropWhile(s, st.p)
    [] st.t = "filter"    -> SFilter(s, st.p)
    [] st.t = "filternot" -> SFilterNot(s, st.p)
    [] st.t = "map"       -> SMap(s, st.f)
    [] st.t = "flatmap"   -> SFlat(s, st.f)
    [] st.t = "concat"    -> s \o st.lit
    [] st.t = "prepend"   -> st.lit \o s
    [] st.t = "scan"      -> SScan(s, 0)
    [] st.t = "zipidx"    -> SZipIdx(s)
    [] st.t = "sort"      -> SSort(s)
    [] st.t = "reverse"   -> SReverse(s)
    [] st.t = "distinct"  -> SDistinct(s, {})
    [] st.t = "spanl"     -> SSpanL(s, st.p)
    [] st.t = "spanr"     -> SSpanR(s, st.p)
    [] st.t = "partl"     -> SFilter(s, st.p)
    [] st.t = "partr"     -> SFilterNot(s, st.p)
    [] OTHER              -> s           \* "id", "tap", "collect", plain constructors
EagerStage(st) == st.t \in {"sort", "reverse", "distinct"}      \* need their whole input by definition

RECURSIVE Ref(_, _)
Ref(pipe, s) == IF pipe = <<>> THEN s ELSE Ref(Tail(pipe), StageOut(Head(pipe), s))

\* What is known of the output when only a prefix of the source has been seen and its end has not:
\* a Concat stage cannot yet deliver what it appends after the end of its input.
RECURSIVE RefOpen(_, _)
RefOpen(pp, s) == IF pp = <<>> THEN s
                  ELSE RefOpen(Tail(pp), IF Head(pp).t = "concat" THEN s ELSE StageOut(Head(pp), s))

Prefix(s, m) == SubSeq(s, 1, m)
MinOf(S) == CHOOSE x \in S : \A y \in S : x <= y
MaxOf(a, b) == IF a > b THEN a ELSE b
\* Need(c): the shortest source prefix that already determines c output elements; the whole source when
\* the c-th element does not exist or only exists because the source has ended
Need(pp, s, c) ==
  IF \E i \in DOMAIN pp : EagerStage(pp[i]) THEN Len(s)
  ELSE IF Len(RefOpen(pp, s)) < c THEN Len(s)
  ELSE MinOf({m \in 0..Len(s) : Len(RefOpen(pp, Prefix(s, m))) >= c})
DropTotal(pp) == LET RECURSIVE Sum(_)
                     Sum(i) == IF i > Len(pp) THEN 0 ELSE (IF pp[i].t = "drop" THEN pp[i].n ELSE 0) + Sum(i + 1)
                 IN Sum(1)
\* what construction may consume: a Drop(n) stage is eager and needs the first n outputs of the stages before it
BuildNeed(pp, s) == LET RECURSIVE Mx(_)
                        Mx(i) == IF i > Len(pp) THEN 0
                                 ELSE MaxOf(IF pp[i].t = "drop" THEN Need(SubSeq(pp, 1, i - 1), s, pp[i].n) ELSE 0, Mx(i + 1))
                    IN Mx(1)
\* stages that buffer output elements by design (a lazy List in the middle, iter.Pull): their look-ahead is
\* counted in output elements, not in source pulls
Buffered(pp) == 2 * Cardinality({i \in DOMAIN pp : pp[i].buf = 1})
Allowed(pp, s, p0, dem) == MaxOf(p0, Need(pp, s, dem + Buffered(pp))) + 2 * Len(pp)

VARIABLES src,     \* the source sequence (for an unbounded generator: its visible prefix)
          pipe,    \* the stages, left to right
          rem,     \* remaining output
          taken,   \* number of elements delivered
          demand,  \* number of elements the consumer has asked about
          unord    \* unordered iterator (hash map / set)
ivars == <<src, pipe, rem, taken, demand, unord>>

IInit(s, pp, u) == src = s /\ pipe = pp /\ rem = Ref(pp, s) /\ taken = 0 /\ demand = 0 /\ unord = u
IReset(s, pp, u) == src' = s /\ pipe' = pp /\ rem' = Ref(pp, s) /\ taken' = 0 /\ demand' = 0 /\ unord' = u

\* HasNext: truthful, idempotent, consumes nothing
HasNext(r) ==
  /\ r = (rem # <<>>)
  /\ demand' = MaxOf(demand, taken + 1)
  /\ UNCHANGED <<src, pipe, rem, taken, unord>>

RemoveOne(s, v) == LET i == MinOf({j \in 1..Len(s) : s[j] = v}) IN SubSeq(s, 1, i - 1) \o SubSeq(s, i + 1, Len(s))

\* Next: the next element, or a panic exactly when exhausted
Next(v, panicked) ==
  IF rem = <<>>
  THEN /\ panicked
       /\ demand' = MaxOf(demand, taken + 1)
       /\ UNCHANGED <<src, pipe, rem, taken, unord>>
  ELSE /\ ~panicked
       /\ IF unord THEN (\E j \in 1..Len(rem) : rem[j] = v) /\ rem' = RemoveOne(rem, v)
          ELSE v = Head(rem) /\ rem' = Tail(rem)
       /\ taken' = taken + 1
       /\ demand' = MaxOf(demand, taken + 1)
       /\ UNCHANGED <<src, pipe, unord>>
=============================================================================
