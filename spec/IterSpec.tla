------------------------------- MODULE IterSpec -------------------------------
(* Property-level specification of fp.Iterator values (C20) and of lazy pipelines (C12).

   An iterator is its remaining output `rem`:  HasNext answers rem # <<>> and changes nothing,
   however often it is called; Next returns and removes the head; Next on an exhausted iterator
   panics and changes nothing.  The output of a pipeline of combinators over a source is the
   eager computation of SeqSpec (Ref).  Two-sided producers (Duplicate, Span, Partition) are two
   such iterators over one source.  Iterators of hash maps/sets are unordered: Next returns some
   remaining element.

   Demand (C12): after any call the source has been pulled at most
        max(pulled0, Need(demand)) + 2 * (number of stages)
   where pulled0 is what construction consumed (Drop is eager by definition), demand is the
   number of output elements the consumer has asked about so far, and Need(c) is the shortest
   source prefix that settles whether there is a c-th output element: it determines c elements
   or shows that the output has ended (Take reached its count, TakeWhile met a failing element);
   otherwise the source must be read to its end. *)
EXTENDS SeqSpec, TLC

\* a stage is a record [t, n, p, f, lit]
StageOut(st, s) ==
  CASE st.t = "take"      -> STake(s, st.n)
    [] st.t = "drop"      -> SDrop(s, st.n)
    [] st.t = "tw"        -> STakeWhile(s, st.p)
    [] st.t = "dw"        -> SDropWhile(s, st.p)
    [] st.t = "filter"    -> SFilter(s, st.p)
    [] st.t = "filternot" -> SFilterNot(s, st.p)
    [] st.t = "map"       -> SMap(s, st.f)
    [] st.t = "flatmap"   -> SFlat(s, st.f)
    [] st.t = "concat"    -> s \o st.lit
    [] st.t = "prepend"   -> st.lit \o s
    [] st.t = "scan"      -> SScan(s, 0)
    [] st.t = "zipidx"    -> SZipIdx(s)
    [] st.t = "zip"       -> SZip(s, st.lit)
    [] st.t = "zip3"      -> SZip3(s, st.lit, st.n)
    [] st.t = "sort"      -> SSort(s)
    [] st.t = "reverse"   -> SReverse(s)
    [] st.t = "distinct"  -> SDistinct(s, {})
    [] st.t = "spanl"     -> SSpanL(s, st.p)
    [] st.t = "spanr"     -> SSpanR(s, st.p)
    [] st.t = "partl"     -> SFilter(s, st.p)
    [] st.t = "partr"     -> SFilterNot(s, st.p)
    [] OTHER              -> s           \* "id", "tap", "collect", plain constructors
EagerStage(st) == st.t \in {"sort", "reverse", "distinct"}      \* need their whole input by definition

RECURSIVE Ref(_, _)
Ref(pipe, s) == IF pipe = <<>> THEN s ELSE Ref(Tail(pipe), StageOut(Head(pipe), s))

\* What is known of the output when only a prefix of the source has been seen: the elements determined so far
\* (out) and whether the output is complete whatever follows in the source (closed).  Take closes after n
\* elements, TakeWhile / the left side of Span at the first failing element; a Concat stage can deliver what it
\* appends only once its input is closed.  srcClosed: the source itself is known to have ended.
Failing(s, p) == \E i \in 1..Len(s) : ~Pred(p, s[i])
RECURSIVE Known(_, _, _)
Known(pp, s, closed) ==
  IF pp = <<>> THEN [out |-> s, closed |-> closed]
  ELSE LET st == Head(pp) IN
       CASE st.t = "take" -> Known(Tail(pp), STake(s, st.n), closed \/ Len(s) >= st.n)
         [] st.t \in {"tw", "spanl"} -> Known(Tail(pp), STakeWhile(s, st.p), closed \/ Failing(s, st.p))
         [] st.t = "concat" -> Known(Tail(pp), IF closed THEN s \o st.lit ELSE s, closed)
         \* (a zip is symmetric in its operands: that the literal operand has ended does not close the output as far as the
         \*  source is concerned - Zip may ask the source first - so no closedness is claimed for zip / zip3: lenient reading)
         [] OTHER -> Known(Tail(pp), StageOut(st, s), closed)

Prefix(s, m) == SubSeq(s, 1, m)
MinOf(S) == CHOOSE x \in S : \A y \in S : x <= y
MaxOf(a, b) == IF a > b THEN a ELSE b
\* Need(c): the shortest source prefix that settles the question "is there a c-th output element, and which":
\* it determines c elements, or it shows that the output has ended.  A finite source that has been read to its
\* end settles everything.
Settled(pp, s, m, c) == LET kn == Known(pp, Prefix(s, m), FALSE) IN Len(kn.out) >= c \/ kn.closed
Need(pp, s, c) ==
  IF \E i \in DOMAIN pp : EagerStage(pp[i]) THEN Len(s)
  ELSE MinOf({m \in 0..Len(s) : Settled(pp, s, m, c)} \cup {Len(s)})
DropTotal(pp) == 0
\* what construction may consume: a Drop(n) stage is eager and needs the first n outputs of the stages before it
BuildNeed(pp, s) == LET RECURSIVE Mx(_)
                        Mx(i) == IF i > Len(pp) THEN 0
                                 ELSE MaxOf(IF pp[i].t = "drop" THEN Need(SubSeq(pp, 1, i - 1), s, pp[i].n) ELSE 0, Mx(i + 1))
                    IN Mx(1)
\* stages that buffer output elements by design (a lazy List in the middle, iter.Pull): their look-ahead is
\* counted in output elements, not in source pulls
Buffered(pp) == 2 * Cardinality({i \in DOMAIN pp : pp[i].buf = 1})
\* ... and it is look-ahead on the buffering stage's OWN output: when later stages add elements (prepend, concat) the final output
\* is ahead of that stage, so the need is also taken at the position of every buffering stage
BufNeed(pp, s, c) == LET idx == {i \in DOMAIN pp : pp[i].buf = 1}
                         RECURSIVE Mx(_)
                         Mx(S) == IF S = {} THEN 0 ELSE LET i == CHOOSE x \in S : TRUE IN MaxOf(Need(SubSeq(pp, 1, i), s, c), Mx(S \ {i}))
                     IN Mx(idx)
Allowed(pp, s, p0, dem) == MaxOf(MaxOf(p0, Need(pp, s, dem + Buffered(pp))), BufNeed(pp, s, dem + Buffered(pp))) + 2 * Len(pp)

VARIABLES src,     \* the source sequence (for an unbounded generator: its visible prefix)
          pipe,    \* the stages, left to right
          rem,     \* remaining output
          taken,   \* number of elements delivered
          demand,  \* number of elements the consumer has asked about
          unord    \* unordered iterator (hash map / set)
ivars == <<src, pipe, rem, taken, demand, unord>>

IInit(s, pp, u) == src = s /\ pipe = pp /\ rem = Ref(pp, s) /\ taken = 0 /\ demand = 0 /\ unord = u
IReset(s, pp, u) == src' = s /\ pipe' = pp /\ rem' = Ref(pp, s) /\ taken' = 0 /\ demand' = 0 /\ unord' = u

\* HasNext: truthful, idempotent, consumes nothing
HasNext(r) ==
  /\ r = (rem # <<>>)
  /\ demand' = MaxOf(demand, taken + 1)
  /\ UNCHANGED <<src, pipe, rem, taken, unord>>

RemoveOne(s, v) == LET i == MinOf({j \in 1..Len(s) : s[j] = v}) IN SubSeq(s, 1, i - 1) \o SubSeq(s, i + 1, Len(s))

\* Next: the next element, or a panic exactly when exhausted
Next(v, panicked) ==
  IF rem = <<>>
  THEN /\ panicked
       /\ demand' = MaxOf(demand, taken + 1)
       /\ UNCHANGED <<src, pipe, rem, taken, unord>>
  ELSE /\ ~panicked
       /\ IF unord THEN (\E j \in 1..Len(rem) : rem[j] = v) /\ rem' = RemoveOne(rem, v)
          ELSE v = Head(rem) /\ rem' = Tail(rem)
       /\ taken' = taken + 1
       /\ demand' = MaxOf(demand, taken + 1)
       /\ UNCHANGED <<src, pipe, unord>>
=============================================================================
