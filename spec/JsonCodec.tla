-------------------------------- MODULE JsonCodec ---------------------------
(* JSON encoding of fp.Option, fp.Unit and the containers around them (C15), as encoding/json + option.go + fp.go define it.

   Types      Ty  ::=  [t: "int"] | [t: "str"] | [t: "unit"] | [t: "opt", of: Ty] | [t: "ptr", of: Ty] | [t: "list", of: Ty]
                     | [t: "obj", fs: <<[n: name, ty: Ty, omit: BOOLEAN]>>]
   Values     [v: "num", n: digits] | [v: "str", s: string] | [v: "unit"] | [v: "none"] | [v: "some", x: Value]
                     | [v: "nil"] | [v: "ptr", x: Value] | [v: "list", xs: <<Value>>] | [v: "obj", fs: <<Value>>]
   JSON       [j: "null"] | [j: "num", n: digits] | [j: "str", s: string] | [j: "arr", a: <<JSON>>]
                     | [j: "obj", o: <<[k: name, x: JSON]>>]     (members in emission order)

   Numbers are digit strings so that 64-bit extremes stay exact (TLC integers are 32 bit).
   Enc is what Marshal must emit, Dec what Unmarshal must yield; Faithful singles out the values the round-trip law is about:
   those whose own encoding is faithful and not null wherever a null would be read back as None / nil. *)
EXTENDS Integers, Sequences, FiniteSets, TLC

Null == [j |-> "null"]
\* a nil slice: encoding/json emits null, and decodes null to a nil slice
RECURSIVE Enc(_, _), EncFields(_, _, _)
Enc(ty, x) ==
  CASE ty.t = "int" -> [j |-> "num", n |-> x.n]
    [] ty.t = "str" -> [j |-> "str", s |-> x.s]
    [] ty.t = "unit" -> Null
    [] ty.t = "opt" -> IF x.v = "none" THEN Null ELSE Enc(ty.of, x.x)
    [] ty.t = "ptr" -> IF x.v = "nil" THEN Null ELSE Enc(ty.of, x.x)
    [] ty.t = "list" -> IF x.v = "nil" THEN Null ELSE [j |-> "arr", a |-> [i \in DOMAIN x.xs |-> Enc(ty.of, x.xs[i])]]
    [] ty.t = "obj" -> [j |-> "obj", o |-> EncFields(ty, x, 1)]
\* omitempty drops nil pointers / slices and empty strings; an Option is a struct, so it is never dropped and None shows as null
EncFields(ty, x, i) ==
  IF i > Len(ty.fs) THEN <<>>
  ELSE LET f == ty.fs[i]
           v == x.fs[i]
           empty == \/ (f.ty.t \in {"ptr", "list"} /\ v.v = "nil")
                    \/ (f.ty.t = "list" /\ v.v = "list" /\ v.xs = <<>>)
                    \/ (f.ty.t = "str" /\ v.s = "")
       IN (IF f.omit /\ empty THEN <<>> ELSE <<[k |-> f.n, x |-> Enc(f.ty, v)]>>) \o EncFields(ty, x, i + 1)

RECURSIVE Zero(_)
Zero(ty) == CASE ty.t = "int" -> [v |-> "num", n |-> "0"] [] ty.t = "str" -> [v |-> "str", s |-> ""] [] ty.t = "unit" -> [v |-> "unit"]
              [] ty.t = "opt" -> [v |-> "none"] [] ty.t \in {"ptr", "list"} -> [v |-> "nil"]
              [] ty.t = "obj" -> [v |-> "obj", fs |-> [i \in DOMAIN ty.fs |-> Zero(ty.fs[i].ty)]]

\* does the JSON value fit the type (otherwise Unmarshal reports an error)
RECURSIVE Fits(_, _)
Fits(ty, js) ==
  CASE ty.t = "int" -> js.j \in {"num", "null"}
    [] ty.t = "str" -> js.j \in {"str", "null"}
    [] ty.t = "unit" -> TRUE
    [] ty.t \in {"opt", "ptr"} -> js.j = "null" \/ Fits(ty.of, js)
    [] ty.t = "list" -> js.j = "null" \/ (js.j = "arr" /\ \A i \in DOMAIN js.a : Fits(ty.of, js.a[i]))
    [] ty.t = "obj" -> js.j = "null" \/ (js.j = "obj" /\ \A m \in DOMAIN js.o : \A i \in DOMAIN ty.fs : ty.fs[i].n = js.o[m].k => Fits(ty.fs[i].ty, js.o[m].x))

\* decoding into a zero target
RECURSIVE Dec(_, _)
Dec(ty, js) ==
  CASE ty.t = "int" -> IF js.j = "null" THEN Zero(ty) ELSE [v |-> "num", n |-> js.n]
    [] ty.t = "str" -> IF js.j = "null" THEN Zero(ty) ELSE [v |-> "str", s |-> js.s]
    [] ty.t = "unit" -> [v |-> "unit"]
    [] ty.t = "opt" -> IF js.j = "null" THEN [v |-> "none"] ELSE [v |-> "some", x |-> Dec(ty.of, js)]
    [] ty.t = "ptr" -> IF js.j = "null" THEN [v |-> "nil"] ELSE [v |-> "ptr", x |-> Dec(ty.of, js)]
    [] ty.t = "list" -> IF js.j = "null" THEN [v |-> "nil"] ELSE [v |-> "list", xs |-> [i \in DOMAIN js.a |-> Dec(ty.of, js.a[i])]]
    [] ty.t = "obj" -> IF js.j = "null" THEN Zero(ty)
                       ELSE [v |-> "obj", fs |-> [i \in DOMAIN ty.fs |->
                              LET ms == {m \in DOMAIN js.o : js.o[m].k = ty.fs[i].n}
                              IN IF ms = {} THEN Zero(ty.fs[i].ty) ELSE Dec(ty.fs[i].ty, js.o[CHOOSE m \in ms : \A m2 \in ms : m2 <= m].x)]]

\* "values whose own JSON encoding is faithful and not null": below an Option or pointer nothing may encode to null, and an
\* omitted or null slice comes back nil, so the empty slice is identified with nil by the caller (Norm)
RECURSIVE Faithful(_, _)
Faithful(ty, x) ==
  CASE ty.t \in {"int", "str", "unit"} -> TRUE
    [] ty.t = "opt" -> x.v = "none" \/ (Enc(ty.of, x.x) # Null /\ Faithful(ty.of, x.x))
    [] ty.t = "ptr" -> x.v = "nil" \/ (Enc(ty.of, x.x) # Null /\ Faithful(ty.of, x.x))
    [] ty.t = "list" -> x.v = "nil" \/ \A i \in DOMAIN x.xs : Faithful(ty.of, x.xs[i])
    [] ty.t = "obj" -> \A i \in DOMAIN ty.fs : Faithful(ty.fs[i].ty, x.fs[i])
\* nil and empty slices are one value for the law when the field is omitempty
RECURSIVE Norm(_, _, _)
Norm(ty, x, omit) ==
  CASE ty.t \in {"int", "str", "unit"} -> x
    [] ty.t \in {"opt", "ptr"} -> IF x.v \in {"none", "nil"} THEN x ELSE [x EXCEPT !.x = Norm(ty.of, x.x, FALSE)]
    [] ty.t = "list" -> IF x.v = "nil" THEN x ELSE IF x.xs = <<>> /\ omit THEN [v |-> "nil"] ELSE [x EXCEPT !.xs = [i \in DOMAIN x.xs |-> Norm(ty.of, x.xs[i], FALSE)]]
    [] ty.t = "obj" -> [x EXCEPT !.fs = [i \in DOMAIN ty.fs |-> Norm(ty.fs[i].ty, x.fs[i], ty.fs[i].omit)]]

RoundTrip(ty, x) == Faithful(ty, x) => Norm(ty, Dec(ty, Enc(ty, x)), FALSE) = Norm(ty, x, FALSE)
=============================================================================
