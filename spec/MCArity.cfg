SPECIFICATION ASpec
INVARIANTS IdentityIsPermutation NothingDroppedOrDuplicated ReverseIsInvolution InitTailOverlap
CHECK_DEADLOCK FALSE
