SPECIFICATION Spec
CONSTANTS
  Threads = {"t1", "t2"}
  Keys = {"a", "b"}
  KeyOrder <- KO
  ProgSpace <- Prog2x2
  ComputeMode = "recheck"
  InitMode = "recheck"
VIEW View
INVARIANT NoPanic
PROPERTY Refines
CHECK_DEADLOCK FALSE
