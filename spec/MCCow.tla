---- MODULE MCCow ----
EXTENDS Cow
Op(o, k, k2, v, fn) == [op |-> o, k |-> k, k2 |-> k2, v |-> v, fn |-> fn]
KO == <<"a", "b">>
\* operation alphabets
OpsSmall == {Op("get","a","-",0,"-"), Op("put","a","-",3,"-"), Op("del","a","-",0,"-"),
             Op("cia","a","-",1,"never"), Op("cia","a","-",2,"never"), Op("iter","-","-",0,"-")}
OpsFull == OpsSmall \cup
           {Op("size","-","-",0,"-"), Op("upw","a","-",0,"inc"), Op("upw","a","-",0,"del"), Op("del2","a","b",0,"-"),
            Op("cif","a","-",4,"odd"), Op("cif","a","-",5,"always"), Op("cia","b","-",1,"never"), Op("put","b","-",2,"-")}
Seqs(S, n) == UNION {[1..i -> S] : i \in 1..n}
\* all programs of two threads with up to two operations each over the full alphabet
Prog2x2 == [Threads -> Seqs(OpsFull, 2)]
\* all programs of three threads with one operation each (full alphabet) 
Prog3x1 == [Threads -> Seqs(OpsFull, 1)]
\* three threads, up to two operations, small alphabet
Prog3x2 == [Threads -> Seqs(OpsSmall, 2)]
\* the classic race: two ComputeIfAbsent and a Removed
ProgRace == {[t \in Threads |-> IF t = "t1" THEN <<Op("cia","a","-",1,"never")>>
                                ELSE IF t = "t2" THEN <<Op("cia","a","-",2,"never")>>
                                ELSE <<Op("del","a","-",0,"-")>>]}
====
