SPECIFICATION DSpec
CONSTANT MaxNF = 2
INVARIANTS EqIsConjunction HashRespectsEq OrdIsLexicographic OrdLawful MonoidIsFieldwise MonoidLawful
CHECK_DEADLOCK FALSE
