SPECIFICATION DSpec
CONSTANT MaxNF = 3
INVARIANTS EqIsConjunction HashRespectsEq OrdIsLexicographic OrdLawful MonoidIsFieldwise MonoidLawful
CHECK_DEADLOCK FALSE
