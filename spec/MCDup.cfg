SPECIFICATION Spec
CONSTANTS
  SrcSpace <- Sources
  MaxCalls = 10
VIEW View
INVARIANTS EachSidePrefix PulledOnce HasNextRight PanicOnlyWhenExhausted
CHECK_DEADLOCK FALSE
