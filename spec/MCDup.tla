---- MODULE MCDup ----
EXTENDS Dup
Sources == UNION {[1..n -> {1, 2}] : n \in 0..3}
====
