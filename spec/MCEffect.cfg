SPECIFICATION MSpec
INVARIANTS LeftIdentity RightIdentity Associativity MapCoherence AllAgree Map2Agree ZipAgree ApAgree KleisliAgree TraverseAgree FoldAgree
CHECK_DEADLOCK FALSE
