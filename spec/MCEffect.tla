---- MODULE MCEffect ----
(* C01: monad laws for U/FM over the whole value and continuation space; every derived combinator, defined by its equation
   in U and FM, equals the first-failure oracle (C02) on every argument tuple.  The state space is the space of argument
   tuples, so TLC's counters say how many were checked. *)
EXTENDS EffectSpec
Vals == {<<>>, <<1>>, <<2>>, <<1, 2>>}
Errs == {"e1", "e2"}
M == {Ok(v) : v \in Vals} \cup {Fail(e) : e \in Errs}
\* all continuations as tables over the value space (the whole function space would be |M|^|Vals| = 1296)
KTab == [Vals -> M]
VARIABLES ms, k1, k2
mvars == <<ms, k1, k2>>
Tuples == UNION {[1..n -> M] : n \in 1..3}
MInit == ms \in Tuples /\ k1 \in {t \in KTab : t[<<>>].ok} /\ k2 \in {[v \in Vals |-> Cont(c, v)] : c \in {"kinc", "kfail", "kodd", "kid"}}
MSpec == MInit /\ [][UNCHANGED mvars]_mvars
Dom(v) == IF v \in Vals THEN v ELSE <<>>           \* keep table lookups inside the table
K1(v) == k1[Dom(v)]
K2(v) == k2[Dom(v)]
m == ms[1]
\* ComposeN / FlatMap chains: Kleisli composition of the continuations named in ks
KK(c, x) == IF c = "a" THEN K1(x) ELSE K2(x)
RECURSIVE DefKleisli(_, _, _), DefTraverse(_, _, _), DefFoldM(_, _, _)
DefKleisli(mm, ks, i) == IF i > Len(ks) THEN mm ELSE DefKleisli(FM(mm, LAMBDA x : KK(ks[i], x)), ks, i + 1)
\* Traverse: FlatMap over the elements, left to right
DefTraverse(xs, i, acc) == IF i > Len(xs) THEN U(acc) ELSE FM(K2(xs[i]), LAMBDA y : DefTraverse(xs, i + 1, acc \o y))
\* FoldM
DefFoldM(xs, i, acc) == IF i > Len(xs) THEN U(acc) ELSE FM(K2(<<xs[i]>>), LAMBDA b : DefFoldM(xs, i + 1, b))
LeftIdentity  == \A v \in Vals : FM(U(v), K1) = K1(v)
RightIdentity == FM(m, U) = m
Associativity == FM(FM(m, K1), K2) = FM(m, LAMBDA x : FM(K1(x), K2))
MapCoherence  == DefMap(m, LAMBDA x : x \o x) = FM(m, LAMBDA x : U(x \o x))
\* derived combinators: defining equation = oracle
AllAgree      == DefAll(ms, 1, <<>>) = OracleAll(ms)
Map2Agree     == Len(ms) >= 2 => DefMap2(ms[1], ms[2], LAMBDA x, y : x \o y) = OracleAll(SubSeq(ms, 1, 2))
ZipAgree      == Len(ms) >= 2 => DefZip(ms[1], ms[2]) = OracleAll(SubSeq(ms, 1, 2))
ApAgree       == Len(ms) >= 2 => DefAp(ms[1], ms[2], LAMBDA f, x : f \o x) = OracleAll(SubSeq(ms, 1, 2))
KleisliAgree  == DefKleisli(m, <<"a", "b">>, 1) = FM(FM(m, K1), K2)
TraverseAgree == LET xs == <<<<>>, <<1>>, <<2>>>> IN
                 DefTraverse(xs, 1, <<>>) = OracleAll([i \in 1..3 |-> K2(xs[i])])
\* FoldM: stops at the first failing step
FoldAgree     == LET r == DefFoldM(<<1, 2>>, 1, <<>>) IN
                 (~K2(<<1>>).ok => r = K2(<<1>>)) /\ (K2(<<1>>).ok /\ ~K2(<<2>>).ok => r = K2(<<2>>))
====
