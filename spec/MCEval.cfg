SPECIFICATION Spec2
INVARIANTS Faithful RunOnce
PROPERTY Terminates
CHECK_DEADLOCK FALSE
