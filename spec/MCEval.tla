---- MODULE MCEval ----
EXTENDS EvalSpec
Leaf == {[k |-> "done", v |-> 1], [k |-> "call", id |-> 1, v |-> 2], [k |-> "tail", id |-> 2, e |-> [k |-> "done", v |-> 3]],
         [k |-> "tail", id |-> 3, e |-> [k |-> "call", id |-> 4, v |-> 5]]}
L1 == Leaf \cup {[k |-> "map", e |-> a, f |-> "inc"] : a \in Leaf} \cup {[k |-> "fm", e |-> a, c |-> c] : a \in Leaf, c \in Conts}
      \cup {[k |-> "tail", id |-> 5, e |-> a] : a \in Leaf}
L2 == L1 \cup {[k |-> "map", e |-> a, f |-> "dbl"] : a \in L1} \cup {[k |-> "fm", e |-> a, c |-> c] : a \in L1, c \in Conts}
      \cup {[k |-> "map2", a |-> a, b |-> b] : a \in L1, b \in Leaf} \cup {[k |-> "tail", id |-> 6, e |-> a] : a \in L1}
L3 == L2 \cup {[k |-> "fm", e |-> a, c |-> c] : a \in L2, c \in {"ktail", "kmap"}} \cup {[k |-> "map2", a |-> a, b |-> b] : a \in Leaf, b \in L2}
\* a tail-recursive countdown of depth n under two FlatMaps: TailCall(... TailCall(Done(0))).Map(inc).Map(inc)
RECURSIVE Chain(_)
Chain(n) == IF n = 0 THEN [k |-> "done", v |-> 0] ELSE [k |-> "tail", id |-> n % 90, e |-> Chain(n - 1)]
Chains == {[k |-> "map", e |-> [k |-> "map", e |-> Chain(n), f |-> "inc"], f |-> "inc"] : n \in {1, 5, 40}}
Spec2 == ESpec(L3)
SpecChain == ESpec(Chains)
StackBounded == maxDepth <= 3
====
