SPECIFICATION SpecChain
INVARIANTS Faithful StackBounded
PROPERTY Terminates
CHECK_DEADLOCK FALSE
