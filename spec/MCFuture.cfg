SPECIFICATION FSpec
INVARIANTS NeverEarly FinalValue Monotone
PROPERTIES SingleAssignment EventuallyComplete
CHECK_DEADLOCK FALSE
