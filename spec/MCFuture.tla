---- MODULE MCFuture ----
EXTENDS FutureSpec
Node == [k |-> "unit", v |-> <<>>, e |-> "-", id |-> 0, args |-> <<>>, fin |-> [t |-> "none", id |-> 0, c |-> "-"], ks |-> <<>>,
         xs |-> <<>>, steps |-> <<>>, mode |-> "-", pv |-> "-"]
Src(i) == [Node EXCEPT !.k = "src", !.id = i]
Leaves == {Src(1), Src(2), Src(3), [Node EXCEPT !.k = "unit", !.v = <<1>>], [Node EXCEPT !.k = "fail", !.e = "e1"]}
All(a, f) == [Node EXCEPT !.k = "all", !.args = a, !.fin = f]
Fins == {[t |-> "pure", id |-> 0, c |-> "-"], [t |-> "mon", id |-> 0, c |-> "ksrc"], [t |-> "mon", id |-> 0, c |-> "kodd"]}
Chain(a, cs) == [k |-> "chain", v |-> <<>>, e |-> "-", id |-> 0, args |-> <<>>, fin |-> [t |-> "none", id |-> 0, c |-> "-"],
                 arg |-> a, ks |-> [i \in DOMAIN cs |-> [id |-> 0, c |-> cs[i]]], xs |-> <<>>, steps |-> <<>>, mode |-> "-", pv |-> "-"]
Rec(a, c) == [k |-> "rec", v |-> <<>>, e |-> "-", id |-> 0, args |-> <<>>, fin |-> [t |-> "none", id |-> 0, c |-> "-"],
              arg |-> a, kk |-> [id |-> 0, c |-> c], ks |-> <<>>, xs |-> <<>>, steps |-> <<>>, mode |-> "-", pv |-> "-"]
L1 == {All(a, f) : a \in UNION {[1..n -> Leaves] : n \in 1..3}, f \in Fins}
      \cup {Chain(a, cs) : a \in Leaves, cs \in UNION {[1..n -> {"kinc", "kfail", "ksrc", "kodd"}] : n \in 1..2}}
      \cup {Rec(a, c) : a \in Leaves, c \in {"kinc", "kfail", "ksrc"}}
L2 == L1 \cup {All(<<a, b>>, [t |-> "pure", id |-> 0, c |-> "-"]) : a \in {Chain(Src(1), <<"ksrc">>), Rec(Src(2), "ksrc"), All(<<Src(1), Src(2)>>, [t |-> "pure", id |-> 0, c |-> "-"])},
                                                                   b \in {Src(3), Chain(Src(2), <<"kodd">>)}}
Results == [1..3 -> {[ok |-> TRUE, v |-> <<1>>, e |-> "-"], [ok |-> TRUE, v |-> <<2>>, e |-> "-"], [ok |-> FALSE, v |-> <<>>, e |-> "e5"]}]
FInit == prog \in L2 /\ res \in Results /\ done \in SUBSET (1..3) /\ derived = Pending
FSpec == FInit /\ [][FNext]_fvars /\ WF_fvars(FNext)
====
