SPECIFICATION GSpec
INVARIANTS WithLaw RoundTripLaw BuilderLaw
CHECK_DEADLOCK FALSE
