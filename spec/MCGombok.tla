----------------------------- MODULE MCGombok -----------------------------
(* bounded instance of Gombok: Option values are written Some(v) = v + 10, None = -1 *)
EXTENDS Integers
MCSome(v) == v + 10
VARIABLES shape, x, y, step
INSTANCE Gombok WITH SomeOf <- MCSome, NoneV <- -1
=============================================================================
