SPECIFICATION Spec
CONSTANTS
  Keys = {1, 2, 3}
  Vals = {1, 2}
  Bits = 2
  MaxArray = 2
  MaxBitmap = 2
  HashBits = 4
  HashSpace <- AllHashers
  MaxOps = 6
VIEW View
INVARIANTS GetAgrees SizeAgrees IterAgrees Structure
CHECK_DEADLOCK FALSE
