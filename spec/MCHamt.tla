---- MODULE MCHamt ----
EXTENDS Hamt, Json
NF == HashBits \div Bits
Frags == [1..NF -> 0..(W - 1)]
AllHashers == [Keys -> Frags]
\* the four families of the property, scaled to the model: identity, low entropy, constant, high bits only
Ident(k) == [i \in 1..NF |-> IF i = 1 THEN k % W ELSE (k \div W) % W]
Low(k)   == [i \in 1..NF |-> IF i = 1 THEN k % 2 ELSE 0]
Const(k) == [i \in 1..NF |-> 1]
High(k)  == [i \in 1..NF |-> IF i = NF THEN k % W ELSE 0]
Families == {[k \in Keys |-> Ident(k)], [k \in Keys |-> Low(k)], [k \in Keys |-> Const(k)], [k \in Keys |-> High(k)]}
\* ---- real constants (Bits = 5, 32-bit hashes: seven fragments, the last one two bits wide) ----
RIdent(k) == [i \in 1..7 |-> IF i = 1 THEN k % 32 ELSE IF i = 2 THEN (k \div 32) % 32 ELSE 0]
RLow(k)   == [i \in 1..7 |-> IF i = 1 THEN k % 4 ELSE 0]
RConst(k) == [i \in 1..7 |-> IF i = 1 THEN 7 ELSE 0]
RHigh(k)  == [i \in 1..7 |-> IF i = 6 THEN (k % 8) * 4 ELSE IF i = 7 THEN (k \div 8) % 4 ELSE 0]
RMid(k)   == [i \in 1..7 |-> IF i = 1 THEN 21 ELSE IF i = 2 THEN 10 ELSE IF i = 3 THEN k % 32 ELSE IF i = 4 THEN (k \div 32) % 32 ELSE 0]
RealIdent == {[k \in Keys |-> RIdent(k)]}
RealLow   == {[k \in Keys |-> RLow(k)]}
RealConst == {[k \in Keys |-> RConst(k)]}
RealHigh  == {[k \in Keys |-> RHigh(k)]}
RealMid   == {[k \in Keys |-> RMid(k)]}
\* one line per simulated step: the operation and the reference content afterwards
Emit == PrintT(ToJson(<<"STEP", nops', last'[1], last'[2], last'[3], [k \in Keys |-> ref'[k]]>>))
====
