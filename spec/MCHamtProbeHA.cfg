SPECIFICATION Spec
CONSTANTS
  Keys = {1, 2, 3, 4, 5, 6}
  Vals = {1, 2}
  Bits = 2
  MaxArray = 2
  MaxBitmap = 2
  HashBits = 4
  HashSpace <- Families
  MaxOps = 8
VIEW View
INVARIANTS NeverHA
CHECK_DEADLOCK FALSE
