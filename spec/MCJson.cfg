SPECIFICATION Spec
INVARIANTS Law EncFits
CHECK_DEADLOCK FALSE
