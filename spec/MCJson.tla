------------------------------- MODULE MCJson -------------------------------
(* Exhaustive check of JsonCodec!RoundTrip over all types of depth <= 3 and their small values; it also shows that the side condition
   is needed: every unfaithful value (Some(None), Some(nil), ...) is one whose round trip really loses information. *)
EXTENDS JsonCodec
TInt == [t |-> "int"]
TStr == [t |-> "str"]
TUnit == [t |-> "unit"]
Wrap(S) == {[t |-> k, of |-> ty] : k \in {"opt", "ptr", "list"}, ty \in S}
T0 == {TInt, TStr, TUnit}
T1 == T0 \cup Wrap(T0)
T2 == T1 \cup Wrap(T1)
T3 == T2 \cup Wrap(T2)
Objs == {[t |-> "obj", fs |-> <<[n |-> "a", ty |-> t1, omit |-> o1], [n |-> "b", ty |-> t2, omit |-> o2]>>] : t1 \in T1, t2 \in {TInt, [t |-> "opt", of |-> TStr]}, o1 \in BOOLEAN, o2 \in {FALSE}}
RECURSIVE Vals(_)
Vals(ty) ==
  CASE ty.t = "int" -> {[v |-> "num", n |-> "0"], [v |-> "num", n |-> "-9223372036854775808"]}
    [] ty.t = "str" -> {[v |-> "str", s |-> ""], [v |-> "str", s |-> "a"]}
    [] ty.t = "unit" -> {[v |-> "unit"]}
    [] ty.t = "opt" -> {[v |-> "none"]} \cup {[v |-> "some", x |-> y] : y \in Vals(ty.of)}
    [] ty.t = "ptr" -> {[v |-> "nil"]} \cup {[v |-> "ptr", x |-> y] : y \in Vals(ty.of)}
    [] ty.t = "list" -> {[v |-> "nil"], [v |-> "list", xs |-> <<>>]} \cup {[v |-> "list", xs |-> <<y>>] : y \in Vals(ty.of)}
    [] ty.t = "obj" -> {[v |-> "obj", fs |-> <<y1, y2>>] : y1 \in Vals(ty.fs[1].ty), y2 \in Vals(ty.fs[2].ty)}
Cases == {<<ty, x>> : ty \in T3 \cup Objs, x \in {}} \cup UNION {{<<ty, x>> : x \in Vals(ty)} : ty \in T3 \cup Objs}
VARIABLES cs, done
Init == cs \in Cases /\ done = FALSE
Next == done = FALSE /\ done' = TRUE /\ UNCHANGED cs
Spec == Init /\ [][Next]_<<cs, done>>
Law == RoundTrip(cs[1], cs[2])
\* every encoding decodes without error into its own type
EncFits == Fits(cs[1], Enc(cs[1], cs[2]))
\* the side condition is not vacuous and not too strong: an unfaithful value is exactly one that does not survive
SideConditionTight == Faithful(cs[1], cs[2]) <=> Norm(cs[1], Dec(cs[1], Enc(cs[1], cs[2])), TRUE) = Norm(cs[1], cs[2], TRUE)
=============================================================================
