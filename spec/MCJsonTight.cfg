SPECIFICATION Spec
INVARIANTS SideConditionTight
CHECK_DEADLOCK FALSE
