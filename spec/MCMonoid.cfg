SPECIFICATION FullSpec
INVARIANTS Associative Identity
CHECK_DEADLOCK FALSE
