---- MODULE MCMonoid ----
EXTENDS Monoid
\* the variables of Typeclass.tla are not used here
FullInit == MInit /\ vu = 1 /\ va = I(0) /\ vb = I(0) /\ vc = I(0)
FullSpec == FullInit /\ [][UNCHANGED <<mvars, tvars4>>]_<<mvars, tvars4>>
====
