SPECIFICATION PSpec
CONSTANTS
  NK = 2
  MaxVal = 2
  MaxVer = 3
INVARIANTS TypeOK Algebra
PROPERTY OldVersionsIntact
CHECK_DEADLOCK FALSE
