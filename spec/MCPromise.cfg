SPECIFICATION Spec
CONSTANTS
  Registrars = {"r1", "r2"}
  Completers = {"k1", "k2"}
  N0 = 3
  AppendMode = "copy"
VIEW View
INVARIANTS AtMostOneWinner NeverTwice NotBeforeDone RightValue ExactlyOnceAtEnd NoDupInPublished AllRegisteredPresent CasFailsOnlyAfterProgress
PROPERTIES DoneIsFinal Refines
CHECK_DEADLOCK FALSE
