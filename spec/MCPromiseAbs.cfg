SPECIFICATION ASpec
CONSTANTS
  Cbs = {"c1", "c2", "c3"}
  Comps = {"k1", "k2"}
INVARIANTS TypeOK AtMostOneTrue ExactlyOneTrue WinnerReturnsTrue DoneIffWinner ZeroNeverDone AtMostOnce NotBeforeDone FilterRespected ExactlyOnceAtQuiescence NothingListedAfterDone
PROPERTY Stable
CHECK_DEADLOCK FALSE
