---- MODULE MCPromiseAbs ----
EXTENDS PromiseAbs
Eventually == <>[](Quiescent)
Fair == ASpec /\ AFair
====
