SPECIFICATION SSpec
CONSTANTS
  SMaxVer = 2
  SMaxLen = 3
  SVals = {1, 2, 3}
INVARIANT SLaws
PROPERTY SOldVersionsIntact
CHECK_DEADLOCK FALSE
