SPECIFICATION MSpec
INVARIANTS InvThen InvRec InvOnce
CHECK_DEADLOCK FALSE
