---- MODULE MCStateT ----
(* The state-monad laws and the failure / recovery clauses of C17 on the reference semantics, over a program
   space, and the export of that space for replay on the real statet package. *)
EXTENDS StateTSpec, Json, SequencesExt
P(k, id, x, f, e) == [k |-> k, id |-> id, x |-> x, f |-> f, e |-> e, c |-> "-", var |-> "-", xs |-> <<>>, ps |-> <<>>]
Node(k, p, q, c, f, var, x) == [k |-> k, id |-> 0, x |-> x, f |-> f, e |-> "-", c |-> c, var |-> var, xs |-> <<>>, ps |-> <<>>, p |-> p, q |-> q]
Prims == {P("put", 1, 2, "-", "-"), P("get", 2, 0, "-", "-"), P("modify", 3, 0, "inc", "-"), P("modifyS", 4, 0, "dbl", "-"),
          P("modifyT", 5, 0, "inc", "-"), P("modifyT", 6, 1, "inc", "e1"), P("getS", 7, 0, "dbl", "-"), P("pure", 8, 5, "-", "-"),
          P("fail", 9, 0, "-", "e1"), P("fail", 10, 0, "-", "e3")}
L1 == Prims
      \cup {Node("fm", a, a, c, "-", "-", 0) : a \in Prims, c \in Conts}
      \cup {Node("map", a, a, "-", "inc", "-", 0) : a \in Prims}
      \cup {Node("map2", a, b, "-", "-", "-", 0) : a \in Prims, b \in Prims}
      \cup {Node("ap", a, b, "-", "-", "-", 0) : a \in Prims, b \in Prims}
      \cup {Node(k, a, a, "-", "-", "-", x) : k \in {"aptry", "apoption"}, a \in Prims, x \in {0, 1}}
      \cup {Node("then", a, b, "-", "-", "-", 0) : a \in Prims, b \in Prims}
L2 == L1 \cup {Node("rec", a, a, "-", "-", v, x) : a \in L1, v \in Variants, x \in {0, 1}}
         \cup {Node("then", a, b, "-", "-", "-", 0) : a \in L1, b \in {P("get", 20, 0, "-", "-")}}
States == 0..2

\* ---- the laws (C17), for every program of the space and every initial state ----
Get == P("get", 30, 0, "-", "-")
Put(x) == P("put", 31, x, "-", "-")
Obs(r) == [ok |-> r.ok, v |-> r.v, e |-> r.e, s |-> r.s]
LawPutGet == \A s \in States, x \in States :
               Obs(Run(Node("then", Put(x), Get, "-", "-", "-", 0), s)) = [ok |-> TRUE, v |-> <<x>>, e |-> "-", s |-> x]
LawGetPut == \A s \in States : LET r == Run(Node("fm", Get, Get, "kput", "-", "-", 0), s) IN r.ok /\ r.s = s
LawModify == \A s \in States :
               Run(P("modify", 32, 0, "inc", "-"), s).s = Run(Node("then", Get, Put(Fn("inc", s)), "-", "-", "-", 0), s).s
\* ---- per program (the state space of this module is the program space x initial states) ----
VARIABLES prog, s0
mvars == <<prog, s0>>
MInit == prog \in L2 /\ s0 \in States
MSpec == MInit /\ [][UNCHANGED mvars]_mvars
\* sequencing: a failing first step stops everything - the second never runs and the state is the one at the point
\* of failure; otherwise the second step starts from the state the first one left (left-to-right threading)
InvThen == prog.k = "then" =>
             LET r1 == Run(prog.p, s0)  r == Run(prog, s0) IN
             IF ~r1.ok THEN Obs(r) = Obs(r1) /\ r.tr = r1.tr
             ELSE r.s = Run(prog.q, r1.s).s /\ r.tr = r1.tr \o Run(prog.q, r1.s).tr
\* recovery: successes untouched; on failure the handler sees the error and - where it takes one - the post-failure
\* state, which is also the state returned (unless the handler is itself a StateT that changes it)
InvRec == prog.k = "rec" =>
            LET r1 == Run(prog.p, s0)  r == Run(prog, s0) IN
            /\ r1.ok => (Obs(r) = Obs(r1) /\ r.hs = r1.hs)
            /\ (~r1.ok /\ Len(r.hs) > Len(r1.hs)) =>
                 LET h == r.hs[Len(r.hs)] IN
                 /\ h.e = r1.e
                 /\ (prog.var \in {"RecoverWithState", "RecoverWithStateT"} => h.s = r1.s)
                 /\ (prog.var \notin {"RecoverWith", "RecoverCaseWith"} => r.s = r1.s)
\* every primitive step runs at most once and the run is deterministic
InvOnce == LET r == Run(prog, s0) IN r = Run(prog, s0) /\ Len(r.tr) <= 8
ASSUME LawPutGet /\ LawGetPut /\ LawModify

Cases == {[prog |-> p, s0 |-> s] : p \in L2, s \in {1}}
ASSUME JsonSerialize("statetprogs.json", SetToSeq(Cases))
====
