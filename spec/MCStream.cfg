SPECIFICATION Spec
CONSTANTS
  Val = {0, 1}
  MaxLen = 4
  MaxCalls = 6
  FilterMode = "lazy"
VIEW View
INVARIANTS HasNextRight NextRight DemandBound
CHECK_DEADLOCK FALSE
