---- MODULE MCStream ----
EXTENDS Stream
====
