SPECIFICATION Spec
CONSTANTS
  Val = {0, 1}
  MaxLen = 4
  MaxCalls = 6
  FilterMode = "prefetch"
VIEW View
INVARIANTS HasNextRight NextRight DemandBound
CHECK_DEADLOCK FALSE
