SPECIFICATION USpec
INVARIANTS EqReflexive EqSymmetric EqTransitive Trichotomy LessTransitive LessRespectsEq
CHECK_DEADLOCK FALSE
