------------------------------- MODULE MapSpec -------------------------------
(* The mathematical reference for fp.Map / fp.Set (C03): a content is a function from the key
   universe 1..NK to values, 0 meaning "absent".  A set is a map to 1.  Keys are the equivalence
   classes of the Hashable's Eqv; what hash function is in use is invisible here - that is the
   point of the property. *)
EXTENDS Integers, Sequences, FiniteSets

CONSTANTS NK, MaxVal
KeyU == 1..NK
Empty == [k \in KeyU |-> 0]

Size(c)      == Cardinality({k \in KeyU : c[k] # 0})
IsEmpty(c)   == \A k \in KeyU : c[k] = 0
Get(c, k)    == c[k]
Updated(c, k, v)   == [c EXCEPT ![k] = v]
Removed(c, k)      == [c EXCEPT ![k] = 0]
Remap(fn, cur, v)  == CASE fn = "inc" -> (IF cur = 0 THEN 1 ELSE IF cur >= MaxVal THEN 1 ELSE cur + 1)
                        [] fn = "del" -> 0
                        [] fn = "keep" -> cur
                        [] fn = "set" -> v
                        [] OTHER -> cur
UpdatedWith(c, k, fn, v) == [c EXCEPT ![k] = Remap(fn, c[k], v)]
Concat(c, d)       == [k \in KeyU |-> IF d[k] # 0 THEN d[k] ELSE c[k]]      \* entries of d win
Diff(c, d)         == [k \in KeyU |-> IF d[k] # 0 THEN 0 ELSE c[k]]
Intersect(c, d)    == [k \in KeyU |-> IF d[k] # 0 THEN c[k] ELSE 0]
SubsetOf(c, d)     == \A k \in KeyU : c[k] # 0 => d[k] # 0
\* pairs: a sequence of <<k, v>>; later pairs overwrite earlier ones
RECURSIVE FromPairs(_, _)
FromPairs(c, ps) == IF ps = <<>> THEN c ELSE FromPairs(Updated(c, ps[1][1], ps[1][2]), Tail(ps))
=============================================================================
