------------------------------- MODULE Monoid -------------------------------
(* What the Monoid / Semigroup instances of the monoid and semigroup packages mean (C11), over the abstract values of
   Typeclass.tla.  Named instances compute what their names say: Sum adds, Product multiplies, All is conjunction, Any
   disjunction, String and MergeSeq/MergeSlice concatenate, MergeMap/MergeGoMap/MergeSet union with right bias, Option and Try
   combine inside (an absent operand makes the result absent / the first failure wins), the semigroup Option and Ptr treat the
   absent operand as neutral, tuples and hlists combine component by component, Dual flips, Endo composes, Eval and IMap
   transport.  MCMonoid checks associativity and two-sided identity of this meaning on all triples of its universes. *)
EXTENDS Typeclass

I(n) == [t |-> "int", n |-> n]
S(cs) == [t |-> "str", cs |-> cs]
B2N(b) == IF b THEN 1 ELSE 0
\* endomorphisms of int by name, and their values on the test domain
Fn(f, x) == CASE f = <<105, 110, 99>> -> x + 1        \* "inc"
              [] f = <<100, 98, 108>> -> 2 * x        \* "dbl"
              [] f = <<110, 101, 103>> -> 0 - x       \* "neg"
              [] f = <<115, 113>> -> x * x            \* "sq"
              [] OTHER -> x                           \* "id"
FnDomain == <<0, 1, 2, 0 - 3>>
\* a function value is the sequence of its results on the domain
FnVal(f) == [t |-> "seq", xs |-> [i \in 1..4 |-> I(Fn(f, FnDomain[i]))], nil |-> FALSE]

\* right-biased union of two maps given as ascending key / value sequences
MapKeys(m) == {m.ks[i] : i \in DOMAIN m.ks}
MapGet(m, k) == m.vs[CHOOSE i \in DOMAIN m.ks : m.ks[i] = k]
RECURSIVE SortedSeq(_)
SortedSeq(K) == IF K = {} THEN <<>> ELSE LET mn == CHOOSE x \in K : \A y \in K : x <= y IN <<mn>> \o SortedSeq(K \ {mn})
MapUnion(a, b) == LET ks == SortedSeq(MapKeys(a) \cup MapKeys(b)) IN
                  [t |-> "map", ks |-> ks, vs |-> [i \in DOMAIN ks |-> IF ks[i] \in MapKeys(b) THEN MapGet(b, ks[i]) ELSE MapGet(a, ks[i])], nil |-> FALSE]

Monoids == {"sum", "product", "string", "any", "all", "unit", "option(sum)", "option(string)", "try(string)", "mergeseq", "mergeslice",
            "mergegomap", "mergemap", "mergeset", "ptr(sum)", "ptr(string)", "tuple(sum,string)", "hcons(sum,string)", "dual(string)",
            "eval(string)", "imap(sum)"}
Semigroups == {"sg.sum", "sg.any", "sg.all", "sg.dual(string)", "sg.eval(string)", "sg.ptr(sum)", "sg.option(string)", "sg.imap(sum)"}

Empty(mx) ==
  CASE mx = "sum" -> I(0) [] mx = "product" -> I(1) [] mx = "string" -> S(<<>>) [] mx = "any" -> I(0) [] mx = "all" -> I(1) [] mx = "unit" -> I(0)
    [] mx = "option(sum)" -> [t |-> "some", v |-> I(0)]
    [] mx \in {"option(string)", "try(string)"} -> [t |-> "some", v |-> S(<<>>)]
    [] mx \in {"mergeseq", "mergeslice"} -> [t |-> "seq", xs |-> <<>>, nil |-> TRUE]
    [] mx \in {"mergegomap", "mergemap", "mergemap#collide", "mergeset"} -> [t |-> "map", ks |-> <<>>, vs |-> <<>>, nil |-> FALSE]
    [] mx \in {"ptr(sum)", "ptr(string)"} -> [t |-> "nilptr"]
    [] mx \in {"tuple(sum,string)", "hcons(sum,string)"} -> [t |-> "tup", xs |-> <<I(0), S(<<>>)>>]
    [] mx \in {"dual(string)", "eval(string)"} -> S(<<>>)
    [] mx = "imap(sum)" -> [t |-> "wrap", v |-> I(0)]

Comb(mx, a, b) ==
  CASE mx \in {"sum", "sg.sum"} -> I(a.n + b.n)
    [] mx = "product" -> I(a.n * b.n)
    [] mx = "string" -> S(a.cs \o b.cs)
    [] mx \in {"any", "sg.any"} -> I(B2N(a.n = 1 \/ b.n = 1))
    [] mx \in {"all", "sg.all"} -> I(B2N(a.n = 1 /\ b.n = 1))
    [] mx = "unit" -> I(0)
    [] mx = "option(sum)" -> IF a.t = "some" /\ b.t = "some" THEN [t |-> "some", v |-> I(a.v.n + b.v.n)] ELSE [t |-> "none"]
    [] mx = "option(string)" -> IF a.t = "some" /\ b.t = "some" THEN [t |-> "some", v |-> S(a.v.cs \o b.v.cs)] ELSE [t |-> "none"]
    [] mx = "try(string)" -> IF a.t # "some" THEN a ELSE IF b.t # "some" THEN b ELSE [t |-> "some", v |-> S(a.v.cs \o b.v.cs)]
    [] mx \in {"mergeseq", "mergeslice"} -> [t |-> "seq", xs |-> a.xs \o b.xs, nil |-> FALSE]
    [] mx \in {"mergegomap", "mergemap", "mergemap#collide", "mergeset"} -> MapUnion(a, b)
    [] mx \in {"ptr(sum)", "sg.ptr(sum)"} -> IF a.t = "ptr" /\ b.t = "ptr" THEN [t |-> "ptr", v |-> I(a.v.n + b.v.n)] ELSE IF a.t = "nilptr" THEN b ELSE a
    [] mx = "ptr(string)" -> IF a.t = "ptr" /\ b.t = "ptr" THEN [t |-> "ptr", v |-> S(a.v.cs \o b.v.cs)] ELSE IF a.t = "nilptr" THEN b ELSE a
    [] mx \in {"tuple(sum,string)", "hcons(sum,string)"} -> [t |-> "tup", xs |-> <<I(a.xs[1].n + b.xs[1].n), S(a.xs[2].cs \o b.xs[2].cs)>>]
    [] mx \in {"dual(string)", "sg.dual(string)"} -> S(b.cs \o a.cs)
    [] mx \in {"eval(string)", "sg.eval(string)"} -> S(a.cs \o b.cs)
    [] mx \in {"imap(sum)", "sg.imap(sum)"} -> [t |-> "wrap", v |-> I(a.v.n + b.v.n)]
    [] mx = "sg.option(string)" -> IF a.t = "some" /\ b.t = "some" THEN [t |-> "some", v |-> S(a.v.cs \o b.v.cs)] ELSE IF a.t = "none" THEN b ELSE a

\* universes for model checking the meaning itself
Strs == {S(<<>>), S(<<97>>), S(<<98>>), S(<<97, 98>>)}
Ints == {I(n) : n \in 0..2}
Bools == {I(0), I(1)}
Maps == {[t |-> "map", ks |-> <<>>, vs |-> <<>>, nil |-> FALSE]} \cup {[t |-> "map", ks |-> <<1>>, vs |-> <<I(n)>>, nil |-> FALSE] : n \in 0..1}
        \cup {[t |-> "map", ks |-> <<2>>, vs |-> <<I(5)>>, nil |-> FALSE], [t |-> "map", ks |-> <<1, 2>>, vs |-> <<I(0), I(1)>>, nil |-> FALSE]}
MU(mx) ==
  CASE mx \in {"sum", "product", "sg.sum"} -> Ints
    [] mx \in {"string", "dual(string)", "eval(string)", "sg.dual(string)", "sg.eval(string)"} -> Strs
    [] mx \in {"any", "all", "sg.any", "sg.all"} -> Bools
    [] mx = "unit" -> {I(0)}
    [] mx = "option(sum)" -> VOpt(Ints)
    [] mx \in {"option(string)", "sg.option(string)"} -> VOpt(Strs)
    [] mx = "try(string)" -> {[t |-> "some", v |-> s] : s \in Strs} \cup {[t |-> "wrap", v |-> I(n)] : n \in 1..2}
    [] mx \in {"mergeseq", "mergeslice"} -> VSeq(Ints)
    [] mx \in {"mergegomap", "mergemap", "mergeset"} -> Maps
    [] mx \in {"ptr(sum)", "sg.ptr(sum)"} -> VPtr(Ints)
    [] mx = "ptr(string)" -> VPtr(Strs)
    [] mx \in {"tuple(sum,string)", "hcons(sum,string)"} -> VTup2(Ints, Strs)
    [] mx \in {"imap(sum)", "sg.imap(sum)"} -> {[t |-> "wrap", v |-> x] : x \in Ints}

VARIABLES mx, ma, mb, mc
mvars == <<mx, ma, mb, mc>>
MInit == mx \in Monoids \cup Semigroups /\ ma \in MU(mx) /\ mb \in MU(mx) /\ mc \in MU(mx)
MSpec == MInit /\ [][UNCHANGED mvars]_mvars
Associative == SemEq(Comb(mx, Comb(mx, ma, mb), mc), Comb(mx, ma, Comb(mx, mb, mc)))
Identity == mx \in Monoids => SemEq(Comb(mx, Empty(mx), ma), ma) /\ SemEq(Comb(mx, ma, Empty(mx)), ma)
\* Reduce / FoldMap: the left fold of Combine from Empty
RECURSIVE FoldL(_, _, _, _)
FoldL(m, xs, i, acc) == IF i > Len(xs) THEN acc ELSE FoldL(m, xs, i + 1, Comb(m, acc, xs[i]))
=============================================================================
