------------------------------- MODULE Persist -------------------------------
(* Version store (C03 + C04).  Every value ever obtained from the library - a map, a set, the
   product of a builder - is a version with an abstract content that never changes.  An operation
   reads the contents of its source versions and adds one new version; nothing else.  Builders are
   the only mutable objects: Add changes the builder, Build hands out a version and kills the
   builder, so the version handed out is as immutable as any other.

   Persistence is an action property of this specification ([][OldVersionsIntact]_vars); its teeth
   are in the conformance step: the harness re-reads every live version of the real library after
   every operation and TracePersist demands that what it sees is still vals[v]. *)
EXTENDS MapSpec, TLC

CONSTANT MaxVer

VARIABLES vals,    \* sequence of contents, index = version
          kind,    \* sequence of "map" | "set"
          bld      \* sequence of builders [kind, live, c]

pvars == <<vals, kind, bld>>

PInit == vals = <<>> /\ kind = <<>> /\ bld = <<>>
PReset == vals' = <<>> /\ kind' = <<>> /\ bld' = <<>>

NewVersion(kd, c) == vals' = Append(vals, c) /\ kind' = Append(kind, kd) /\ UNCHANGED bld

\* the content an operation produces from its sources
Result(op, kd, a, b, k, k2, v, fn, ps) ==
  CASE op = "new"      -> FromPairs(Empty, IF kd = "set" THEN [i \in DOMAIN ps |-> <<ps[i][1], 1>>] ELSE ps)
    [] op = "updated"  -> Updated(vals[a], k, v)
    [] op = "removed"  -> Removed(vals[a], k)
    [] op = "removed2" -> Removed(Removed(vals[a], k), k2)
    [] op = "upw"      -> UpdatedWith(vals[a], k, fn, v)
    [] op = "concat"   -> Concat(vals[a], vals[b])
    [] op = "incl"     -> Updated(vals[a], k, 1)
    [] op = "excl"     -> Removed(vals[a], k)
    [] op = "union"    -> Concat(vals[a], vals[b])
    [] op = "diff"     -> Diff(vals[a], vals[b])
    [] op = "intersect" -> Intersect(vals[a], vals[b])
    [] op = "same"     -> vals[a]

MapOps == {"updated", "removed", "removed2", "upw", "concat", "same"}
SetOps == {"incl", "excl", "union", "diff", "intersect", "same"}

Apply(op, kd, a, b, k, k2, v, fn, ps) ==
  /\ Len(vals) < MaxVer
  /\ op # "new" => (a \in DOMAIN vals /\ kind[a] = kd /\ op \in (IF kd = "map" THEN MapOps ELSE SetOps))
  /\ op \in {"concat", "union", "diff", "intersect"} => (b \in DOMAIN vals /\ kind[b] = kd)
  /\ NewVersion(kd, Result(op, kd, a, b, k, k2, v, fn, ps))

NewBuilder(kd) == bld' = Append(bld, [kind |-> kd, live |-> TRUE, c |-> Empty]) /\ UNCHANGED <<vals, kind>>
BAdd(i, k, v)  == /\ i \in DOMAIN bld /\ bld[i].live
                  /\ bld' = [bld EXCEPT ![i].c = Updated(@, k, IF bld[i].kind = "set" THEN 1 ELSE v)]
                  /\ UNCHANGED <<vals, kind>>
Build(i)       == /\ i \in DOMAIN bld /\ bld[i].live /\ Len(vals) < MaxVer
                  /\ vals' = Append(vals, bld[i].c) /\ kind' = Append(kind, bld[i].kind)
                  /\ bld' = [bld EXCEPT ![i].live = FALSE]

\* ---- free-running version of the store, for model checking the specification itself ----
Pairs == UNION {[1..n -> KeyU \X (1..MaxVal)] : n \in 0..2}
PNext ==
  \/ \E kd \in {"map", "set"}, ps \in Pairs : Apply("new", kd, 0, 0, 1, 1, 1, "-", ps)
  \/ \E a, b \in DOMAIN vals, k, k2 \in KeyU, v \in 1..MaxVal, fn \in {"inc", "del", "set"}, op \in MapOps \cup SetOps :
        Apply(op, kind[a], a, b, k, k2, v, fn, <<>>)
  \/ (Len(bld) < 1 /\ \E kd \in {"map", "set"} : NewBuilder(kd))
  \/ \E i \in DOMAIN bld : (\E k \in KeyU, v \in 1..MaxVal : BAdd(i, k, v)) \/ Build(i)
PSpec == PInit /\ [][PNext]_pvars

\* ---- properties ----
TypeOK == /\ Len(vals) = Len(kind)
          /\ \A i \in DOMAIN vals : vals[i] \in [KeyU -> 0..MaxVal] /\ (kind[i] = "set" => \A k \in KeyU : vals[i][k] \in {0, 1})
\* C04: no step changes an existing version
OldVersionsIntact == [][\A i \in DOMAIN vals : i \in DOMAIN vals' /\ vals'[i] = vals[i] /\ kind'[i] = kind[i]]_pvars
\* sanity of the reference algebra (checked over every reachable pair of versions)
Algebra == \A a, b \in DOMAIN vals :
             /\ SubsetOf(Diff(vals[a], vals[b]), vals[a])
             /\ Intersect(vals[a], vals[b]) = Diff(vals[a], Diff(vals[a], vals[b]))
             /\ SubsetOf(vals[a], Concat(vals[a], vals[b])) /\ SubsetOf(vals[b], Concat(vals[a], vals[b]))
             /\ Size(Concat(vals[a], vals[b])) = Size(vals[a]) + Size(vals[b]) - Size(Intersect(vals[a], vals[b]))
             /\ (SubsetOf(vals[a], vals[b]) /\ SubsetOf(vals[b], vals[a])) => \A k \in KeyU : (vals[a][k] = 0) = (vals[b][k] = 0)
             /\ \A k \in KeyU : Size(Removed(vals[a], k)) = Size(vals[a]) - (IF vals[a][k] # 0 THEN 1 ELSE 0)
             /\ \A k \in KeyU : Size(Updated(vals[a], k, 1)) = Size(vals[a]) + (IF vals[a][k] = 0 THEN 1 ELSE 0)
=============================================================================
