------------------------------- MODULE Promise -------------------------------
(* Implementation-shaped model of fp.Promise (future.go) at the granularity of the individual
   atomic steps of internal/atomic.Value - one action per block of code between two yield points
   of the verif hooks (first line of Value.Get / Value.CompareAndSwap).

   The status cell holds  nil | []onCompleteFunc (a Go slice: backing array, len, cap) | Try.
   Go slice semantics are modelled because they matter:  append(status, cb)  writes into the
   shared backing array when len < cap, and it does so in the block that performed the Get, i.e.
   before the CAS that may fail.  AppendMode = "inplace" is Go's append applied to the shared
   slice (the code as first found), "copy" is append to a slice clipped to its length
   (status[:len:len]), which always allocates.

   Threads:  Registrars call Future.OnComplete(cb) (dispatchOrAddCallback), Completers call
   Promise.Complete (tryCompleteAndGetListeners + the loop over the captured listeners), N0
   callbacks were registered sequentially beforehand so that every len/cap state is reached.
   Callback tasks handed to the executor run as separate steps.

   The module checks its own invariants and that it refines PromiseAbs (property Refines). *)
EXTENDS Naturals, Sequences, FiniteSets, TLC

CONSTANTS Registrars,   \* e.g. {"r1","r2"}; the callback registered by r is named r
          Completers,   \* e.g. {"k1","k2"}; the value completed by k is named k
          N0,           \* number of callbacks p1..pN0 registered beforehand
          AppendMode    \* "inplace" | "copy"

VARIABLES cell,     \* [k : "nil"|"cbs"|"done", ver, arr, len, v]   (ver = identity of the *ValuePtr)
          arrays,   \* backing arrays: sequence of [cap, slots]
          nver,
          pc,       \* thread -> "idle"|"get"|"cas"|"retn"|"disp"|"retf"|"end"
          snap,     \* thread -> the cell value it read
          pend,     \* registrar -> slice header prepared for the CAS
          capt,     \* completer -> listeners captured by a successful CAS, not yet dispatched
          ret,      \* completer -> "-"|"true"|"false"
          tasks,    \* bag of <<cb, value>> handed to the executor and not yet run
          invoked,  \* cb -> sequence of values received
          act       \* last action and thread (history variable, outside VIEW)

vars == <<cell, arrays, nver, pc, snap, pend, capt, ret, tasks, invoked, act>>
View == <<cell, arrays, nver, pc, snap, pend, capt, ret, tasks, invoked>>

PreName(i) == "p" \o ToString(i)
Pre     == {PreName(i) : i \in 1..N0}
Cbs     == Registrars \cup Pre
Threads == Registrars \cup Completers
Empty   == "-"

GrowCap(c) == IF c = 0 THEN 1 ELSE 2 * c

RECURSIVE PreState(_)
PreState(n) ==
  IF n = 0 THEN [len |-> 0, cap |-> 0, slots |-> <<>>]
  ELSE LET p == PreState(n - 1) IN
       IF p.len < p.cap
       THEN [len |-> p.len + 1, cap |-> p.cap, slots |-> [p.slots EXCEPT ![p.len + 1] = PreName(n)]]
       ELSE LET nc == GrowCap(p.cap) IN
            [len |-> p.len + 1, cap |-> nc,
             slots |-> [i \in 1..nc |-> IF i <= p.len THEN p.slots[i]
                                        ELSE IF i = p.len + 1 THEN PreName(n) ELSE Empty]]

NilCell == [k |-> "nil", ver |-> 0, arr |-> 0, len |-> 0, v |-> Empty]

Init ==
  LET p == PreState(N0) IN
  /\ cell = IF N0 = 0 THEN NilCell ELSE [k |-> "cbs", ver |-> 0, arr |-> 1, len |-> p.len, v |-> Empty]
  /\ arrays = IF N0 = 0 THEN <<>> ELSE <<[cap |-> p.cap, slots |-> p.slots]>>
  /\ nver = 1
  /\ pc = [t \in Threads |-> "idle"]
  /\ snap = [t \in Threads |-> NilCell]
  /\ pend = [t \in Registrars |-> [arr |-> 0, len |-> 0]]
  /\ capt = [t \in Completers |-> {}]
  /\ ret = [t \in Completers |-> "-"]
  /\ tasks = [x \in Cbs \X Completers |-> 0]
  /\ invoked = [c \in Cbs |-> <<>>]
  /\ act = [a |-> "init", t |-> "-"]

Act(a, t) == act' = [a |-> a, t |-> t]

\* a thread starts: from the call to the yield point in front of its first atomic Get
Start(t) ==
  /\ pc[t] = "idle"
  /\ pc' = [pc EXCEPT ![t] = "get"]
  /\ Act("Start", t)
  /\ UNCHANGED <<cell, arrays, nver, snap, pend, capt, ret, tasks, invoked>>

\* ---------------- registrar: dispatchOrAddCallback ----------------
\* Get; switch on the status; the argument of the CAS (append) is evaluated here
RGet(t) ==
  /\ t \in Registrars /\ pc[t] = "get"
  /\ snap' = [snap EXCEPT ![t] = cell]
  /\ Act("RGet", t)
  /\ CASE cell.k = "nil" ->
            /\ arrays' = Append(arrays, [cap |-> 1, slots |-> <<t>>])
            /\ pend' = [pend EXCEPT ![t] = [arr |-> Len(arrays) + 1, len |-> 1]]
            /\ pc' = [pc EXCEPT ![t] = "cas"]
            /\ UNCHANGED tasks
       [] cell.k = "cbs" ->
            LET a == arrays[cell.arr] IN
            IF AppendMode = "inplace" /\ cell.len < a.cap
            THEN /\ arrays' = [arrays EXCEPT ![cell.arr].slots[cell.len + 1] = t]
                 /\ pend' = [pend EXCEPT ![t] = [arr |-> cell.arr, len |-> cell.len + 1]]
                 /\ pc' = [pc EXCEPT ![t] = "cas"]
                 /\ UNCHANGED tasks
            ELSE LET nc == IF AppendMode = "inplace" THEN GrowCap(a.cap) ELSE cell.len + 1 IN
                 /\ arrays' = Append(arrays, [cap |-> nc,
                        slots |-> [i \in 1..nc |-> IF i <= cell.len THEN a.slots[i]
                                                   ELSE IF i = cell.len + 1 THEN t ELSE Empty]])
                 /\ pend' = [pend EXCEPT ![t] = [arr |-> Len(arrays) + 1, len |-> cell.len + 1]]
                 /\ pc' = [pc EXCEPT ![t] = "cas"]
                 /\ UNCHANGED tasks
       [] cell.k = "done" ->
            \* cb(status): the OnComplete wrapper hands the user callback to the executor
            /\ tasks' = [tasks EXCEPT ![<<t, cell.v>>] = @ + 1]
            /\ pc' = [pc EXCEPT ![t] = "retn"]
            /\ UNCHANGED <<arrays, pend>>
  /\ UNCHANGED <<cell, nver, capt, ret, invoked>>

RCas(t) ==
  /\ t \in Registrars /\ pc[t] = "cas"
  /\ Act("RCas", t)
  /\ IF cell.ver = snap[t].ver
     THEN /\ cell' = [k |-> "cbs", ver |-> nver, arr |-> pend[t].arr, len |-> pend[t].len, v |-> Empty]
          /\ nver' = nver + 1
          /\ pc' = [pc EXCEPT ![t] = "retn"]
     ELSE /\ pc' = [pc EXCEPT ![t] = "get"]
          /\ UNCHANGED <<cell, nver>>
  /\ UNCHANGED <<arrays, snap, pend, capt, ret, tasks, invoked>>

\* the registration call returns (same scheduler step as the block before it)
RRet(t) ==
  /\ t \in Registrars /\ pc[t] = "retn"
  /\ pc' = [pc EXCEPT ![t] = "end"]
  /\ Act("RRet", t)
  /\ UNCHANGED <<cell, arrays, nver, snap, pend, capt, ret, tasks, invoked>>

\* ---------------- completer: tryCompleteAndGetListeners, then the loop over the listeners ----------------
CGet(t) ==
  /\ t \in Completers /\ pc[t] = "get"
  /\ snap' = [snap EXCEPT ![t] = cell]
  /\ Act("CGet", t)
  /\ pc' = [pc EXCEPT ![t] = IF cell.k = "done" THEN "retf" ELSE "cas"]
  /\ UNCHANGED <<cell, arrays, nver, pend, capt, ret, tasks, invoked>>

CCas(t) ==
  /\ t \in Completers /\ pc[t] = "cas"
  /\ Act("CCas", t)
  /\ IF cell.ver = snap[t].ver
     THEN /\ cell' = [k |-> "done", ver |-> nver, arr |-> 0, len |-> 0, v |-> t]
          /\ nver' = nver + 1
          \* the captured slice header is the one read by Get; its elements are read from the
          \* (possibly shared and since overwritten) backing array when the loop runs
          /\ capt' = [capt EXCEPT ![t] = IF snap[t].k = "cbs" THEN 1..snap[t].len ELSE {}]
          /\ pc' = [pc EXCEPT ![t] = "disp"]
     ELSE /\ pc' = [pc EXCEPT ![t] = "get"]
          /\ UNCHANGED <<cell, nver, capt>>
  /\ UNCHANGED <<arrays, snap, pend, ret, tasks, invoked>>

Bump(bag, S) == [x \in DOMAIN bag |-> bag[x] + Cardinality({i \in S.idx : <<S.arr.slots[i], S.v>> = x})]

\* for _, cf := range cbs { cf(result) }; return true      (no yield point inside)
CDisp(t) ==
  /\ t \in Completers /\ pc[t] = "disp"
  /\ Act("CDisp", t)
  /\ tasks' = IF capt[t] = {} THEN tasks
              ELSE Bump(tasks, [idx |-> capt[t], arr |-> arrays[snap[t].arr], v |-> t])
  /\ capt' = [capt EXCEPT ![t] = {}]
  /\ ret' = [ret EXCEPT ![t] = "true"]
  /\ pc' = [pc EXCEPT ![t] = "end"]
  /\ UNCHANGED <<cell, arrays, nver, snap, pend, invoked>>

CRetF(t) ==
  /\ t \in Completers /\ pc[t] = "retf"
  /\ Act("CRetF", t)
  /\ ret' = [ret EXCEPT ![t] = "false"]
  /\ pc' = [pc EXCEPT ![t] = "end"]
  /\ UNCHANGED <<cell, arrays, nver, snap, pend, capt, tasks, invoked>>

\* ---------------- the executor runs a callback task ----------------
RunTask(c, v) ==
  /\ tasks[<<c, v>>] > 0
  /\ tasks' = [tasks EXCEPT ![<<c, v>>] = @ - 1]
  /\ invoked' = [invoked EXCEPT ![c] = Append(@, v)]
  /\ Act("Run", c)
  /\ UNCHANGED <<cell, arrays, nver, pc, snap, pend, capt, ret>>

Next == \/ \E t \in Threads : Start(t)
        \/ \E t \in Registrars : RGet(t) \/ RCas(t) \/ RRet(t)
        \/ \E t \in Completers : CGet(t) \/ CCas(t) \/ CDisp(t) \/ CRetF(t)
        \/ \E c \in Cbs, v \in Completers : RunTask(c, v)

Spec == Init /\ [][Next]_vars
FairSpec == Spec /\ WF_vars(Next)

\* ---------------- invariants on the implementation state ----------------
PendingTasks == {x \in DOMAIN tasks : tasks[x] > 0}
AllEnded  == \A t \in Threads : pc[t] = "end"
QuiescentI == AllEnded /\ PendingTasks = {}

AtMostOneWinner == Cardinality({t \in Completers : ret[t] = "true" \/ pc[t] = "disp"}) <= 1
NeverTwice      == \A c \in Cbs : Len(invoked[c]) + Cardinality({x \in PendingTasks : x[1] = c}) <= 1
                   /\ \A x \in PendingTasks : tasks[x] <= 1
NotBeforeDone   == \A c \in Cbs : Len(invoked[c]) > 0 => cell.k = "done"
RightValue      == \A c \in Cbs : \A i \in 1..Len(invoked[c]) : invoked[c][i] = cell.v
ExactlyOnceAtEnd == (QuiescentI /\ cell.k = "done") => \A c \in Cbs : Len(invoked[c]) = 1
NoDupInPublished == cell.k = "cbs" =>
   \A i, j \in 1..cell.len : i # j => arrays[cell.arr].slots[i] # arrays[cell.arr].slots[j]
AllRegisteredPresent == cell.k = "cbs" =>
   \A t \in Registrars : pc[t] \in {"retn", "end"} => \E i \in 1..cell.len : arrays[cell.arr].slots[i] = t
DoneIsFinal == [][cell.k = "done" => cell' = cell]_vars
\* lock-freedom: a CAS fails only because another CAS succeeded since the Get
CasFailsOnlyAfterProgress == \A t \in Threads : (pc[t] = "cas" /\ cell.ver # snap[t].ver) => cell.ver > snap[t].ver
Terminates == <>[]QuiescentI

\* ---------------- refinement of PromiseAbs ----------------
AbsOwed == {x[1] : x \in PendingTasks}
           \cup UNION {{arrays[snap[t].arr].slots[i] : i \in capt[t]} : t \in {u \in Completers : capt[u] # {}}}
Abs == INSTANCE PromiseAbs WITH
         Cbs <- Cbs, Comps <- Completers,
         zero <- FALSE,
         done <- cell.k = "done",
         winner <- cell.v,
         wok <- cell.k = "done",
         cpc <- [t \in Completers |-> CASE pc[t] = "idle" -> "idle"
                                        [] pc[t] \in {"get", "cas"} -> "called"
                                        [] pc[t] = "disp" -> "won"
                                        [] pc[t] = "retf" -> "lost"
                                        [] OTHER -> "ret"],
         cok <- [t \in Completers |-> TRUE],
         cret <- ret,
         rpc <- [c \in Cbs |-> IF c \in Pre THEN "ret"
                               ELSE CASE pc[c] = "idle" -> "idle"
                                      [] pc[c] \in {"get", "cas"} -> "called"
                                      [] pc[c] = "retn" -> "linked"
                                      [] OTHER -> "ret"],
         filt <- [c \in Cbs |-> "complete"],
         listed <- IF cell.k = "cbs" THEN {arrays[cell.arr].slots[i] : i \in 1..cell.len} ELSE {},
         owed <- AbsOwed,
         got <- [c \in Cbs |-> Len(invoked[c])]
Refines == [][Abs!ANext]_(Abs!avars)
=============================================================================
