---------------------------- MODULE PromiseAbs ----------------------------
(* Property-level specification of fp.Promise / fp.Future (C05).

   A promise is a single-assignment cell plus a set of callbacks.  Every public call is split
   into Call / Lin / Ret: the call takes effect atomically at Lin, some time between its Call and
   its Ret.  Registration of a callback either lists it (promise still pending) or makes its
   delivery owed at once (promise already completed); completion makes the delivery of every
   listed callback owed.  A callback runs (Deliver) only when owed, which removes the debt:
   exactly-once delivery, never before completion, always with the winner's result.

   The zero-value Promise/Future (Zero = TRUE) is a promise that is never completed: Complete
   returns false and registrations are ignored.

   The same module is (a) model-checked on its own (MCPromiseAbs), (b) the refinement target of
   the implementation-shaped Promise.tla, and (c) the acceptor of traces recorded from the real
   fp.Promise under the cooperative scheduler (TracePromiseAbs). *)
EXTENDS Naturals, Sequences, FiniteSets

CONSTANTS Cbs,      \* callback identifiers
          Comps     \* completing threads; a completer's result is identified with the completer

VARIABLES zero,     \* BOOLEAN: zero-value promise
          done,     \* BOOLEAN: completed
          winner,   \* the completer whose Complete/Success/Failure took effect ("-" before)
          wok,      \* the winner completed with a Success
          cpc,      \* completer -> "idle" | "called" | "won" | "lost" | "ret"
          cok,      \* completer -> BOOLEAN (Success vs Failure), fixed at its Call
          cret,     \* completer -> "-" | "true" | "false"
          rpc,      \* callback  -> "idle" | "called" | "linked" | "ret"
          filt,     \* callback  -> "complete" | "success" | "failure" | "foreach", fixed at its Call
          listed,   \* callbacks waiting in the promise
          owed,     \* callbacks whose delivery is due
          got       \* callback -> number of deliveries so far

avars == <<zero, done, winner, wok, cpc, cok, cret, rpc, filt, listed, owed, got>>

Filters == {"complete", "success", "failure", "foreach"}

Matches(f, ok) == \/ f = "complete"
                  \/ f \in {"success", "foreach"} /\ ok
                  \/ f = "failure" /\ ~ok

AInit(z) ==
  /\ zero = z /\ done = FALSE /\ winner = "-" /\ wok = FALSE
  /\ cpc = [t \in Comps |-> "idle"] /\ cok = [t \in Comps |-> TRUE] /\ cret = [t \in Comps |-> "-"]
  /\ rpc = [c \in Cbs |-> "idle"] /\ filt = [c \in Cbs |-> "complete"]
  /\ listed = {} /\ owed = {} /\ got = [c \in Cbs |-> 0]

\* the same as an action (used by trace specifications to start the next recorded execution)
AReset(z) ==
  /\ zero' = z /\ done' = FALSE /\ winner' = "-" /\ wok' = FALSE
  /\ cpc' = [t \in Comps |-> "idle"] /\ cok' = [t \in Comps |-> TRUE] /\ cret' = [t \in Comps |-> "-"]
  /\ rpc' = [c \in Cbs |-> "idle"] /\ filt' = [c \in Cbs |-> "complete"]
  /\ listed' = {} /\ owed' = {} /\ got' = [c \in Cbs |-> 0]

\* ---------------- registration: OnComplete / OnSuccess / OnFailure / Foreach ----------------
RCall(c, f) ==
  /\ rpc[c] = "idle"
  /\ rpc' = [rpc EXCEPT ![c] = "called"] /\ filt' = [filt EXCEPT ![c] = f]
  /\ UNCHANGED <<zero, done, winner, wok, cpc, cok, cret, listed, owed, got>>

RLin(c) ==
  /\ rpc[c] = "called"
  /\ rpc' = [rpc EXCEPT ![c] = "linked"]
  /\ IF zero THEN UNCHANGED <<listed, owed>>
     ELSE IF done THEN /\ owed' = IF Matches(filt[c], wok) THEN owed \cup {c} ELSE owed
                       /\ UNCHANGED listed
     ELSE listed' = listed \cup {c} /\ UNCHANGED owed
  /\ UNCHANGED <<zero, done, winner, wok, cpc, cok, cret, filt, got>>

RRet(c) ==
  /\ rpc[c] = "linked"
  /\ rpc' = [rpc EXCEPT ![c] = "ret"]
  /\ UNCHANGED <<zero, done, winner, wok, cpc, cok, cret, filt, listed, owed, got>>

\* ---------------- completion: Complete / Success / Failure ----------------
CCall(t, ok) ==
  /\ cpc[t] = "idle"
  /\ cpc' = [cpc EXCEPT ![t] = "called"] /\ cok' = [cok EXCEPT ![t] = ok]
  /\ UNCHANGED <<zero, done, winner, wok, cret, rpc, filt, listed, owed, got>>

CLin(t) ==
  /\ cpc[t] = "called"
  /\ IF ~zero /\ ~done
     THEN /\ done' = TRUE /\ winner' = t /\ wok' = cok[t]
          /\ owed' = owed \cup {c \in listed : Matches(filt[c], cok[t])}
          /\ listed' = {}
          /\ cpc' = [cpc EXCEPT ![t] = "won"]
     ELSE /\ cpc' = [cpc EXCEPT ![t] = "lost"]
          /\ UNCHANGED <<done, winner, wok, owed, listed>>
  /\ UNCHANGED <<zero, cok, cret, rpc, filt, got>>

CRet(t, r) ==
  /\ cpc[t] \in {"won", "lost"}
  /\ r = (cpc[t] = "won")
  /\ cpc' = [cpc EXCEPT ![t] = "ret"]
  /\ cret' = [cret EXCEPT ![t] = IF r THEN "true" ELSE "false"]
  /\ UNCHANGED <<zero, done, winner, wok, cok, rpc, filt, listed, owed, got>>

\* ---------------- a callback runs, receiving w's result ----------------
Deliver(c, w) ==
  /\ c \in owed /\ w = winner
  /\ owed' = owed \ {c}
  /\ got' = [got EXCEPT ![c] = @ + 1]
  /\ UNCHANGED <<zero, done, winner, wok, cpc, cok, cret, rpc, filt, listed>>

\* ---------------- observers: IsCompleted / Value (atomic reads) ----------------
ObsOK(d, w) == d = done /\ (w # "-" => (done /\ w = winner))

Quiescent ==
  /\ \A t \in Comps : cpc[t] \in {"idle", "ret"}
  /\ \A c \in Cbs : rpc[c] \in {"idle", "ret"}
  /\ owed = {}

ANext ==
  \/ \E c \in Cbs : (\E f \in Filters : RCall(c, f)) \/ RLin(c) \/ RRet(c)
  \/ \E t \in Comps : (\E ok \in BOOLEAN : CCall(t, ok)) \/ CLin(t) \/ (\E r \in BOOLEAN : CRet(t, r))
  \/ \E c \in Cbs, w \in Comps : Deliver(c, w)

ASpec == (\E z \in BOOLEAN : AInit(z)) /\ [][ANext]_avars
AFair == WF_avars(ANext)

\* ---------------- the property (C05) ----------------
TypeOK ==
  /\ done \in BOOLEAN /\ zero \in BOOLEAN /\ winner \in Comps \cup {"-"}
  /\ listed \subseteq Cbs /\ owed \subseteq Cbs

AtMostOneTrue   == Cardinality({t \in Comps : cret[t] = "true" \/ cpc[t] = "won"}) <= 1
ExactlyOneTrue  == (~zero /\ \A t \in Comps : cpc[t] = "ret") /\ Comps # {}
                      => (Cardinality({t \in Comps : cret[t] = "true"}) = 1 \/ \A t \in Comps : cret[t] = "-")
WinnerReturnsTrue == \A t \in Comps : cret[t] = "true" => winner = t
DoneIffWinner   == done <=> winner # "-"
ZeroNeverDone   == zero => ~done /\ owed = {} /\ listed = {} /\ \A t \in Comps : cret[t] # "true"
AtMostOnce      == \A c \in Cbs : got[c] <= 1
NotBeforeDone   == \A c \in Cbs : (got[c] > 0 \/ c \in owed) => done
FilterRespected == \A c \in Cbs : (got[c] > 0 \/ c \in owed) => Matches(filt[c], wok)
\* every linked matching callback is delivered exactly once by the time the system is quiescent
ExactlyOnceAtQuiescence ==
  (Quiescent /\ done /\ ~zero) =>
     \A c \in Cbs : rpc[c] = "ret" => got[c] = (IF Matches(filt[c], wok) THEN 1 ELSE 0)
NothingListedAfterDone == done => listed = {}
\* single assignment, forever
Stable == [][done => (done' /\ winner' = winner /\ wok' = wok)]_avars
=============================================================================
