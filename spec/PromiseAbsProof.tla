------------------------- MODULE PromiseAbsProof -------------------------
(* Unbounded safety of the property-level Promise specification: for ANY sets of callbacks and completers (TLC checks them for
   3 x 2) the inductive invariant IndInv holds in every reachable state, and it implies single assignment (at most one
   completer wins, the winner is the one that returns true), at-most-once delivery, no delivery before completion and that
   nothing stays listed after completion.  Checked by the TLA+ proof system (tlapm, SMT back end). *)
EXTENDS PromiseAbs, TLAPS

ASSUME NoDash == "-" \notin Comps

PcR == {"idle", "called", "linked", "ret"}
PcC == {"idle", "called", "won", "lost", "ret"}

IndInv ==
  /\ zero \in BOOLEAN /\ done \in BOOLEAN /\ wok \in BOOLEAN
  /\ winner \in Comps \cup {"-"}
  /\ cpc \in [Comps -> PcC] /\ cok \in [Comps -> BOOLEAN] /\ cret \in [Comps -> {"-", "true", "false"}]
  /\ rpc \in [Cbs -> PcR] /\ filt \in [Cbs -> Filters]
  /\ listed \subseteq Cbs /\ owed \subseteq Cbs /\ got \in [Cbs -> Nat]
  /\ done <=> winner # "-"
  /\ done => listed = {}
  /\ zero => ~done /\ listed = {} /\ owed = {}
  /\ \A c \in Cbs : rpc[c] \in {"idle", "called"} => c \notin listed /\ c \notin owed /\ got[c] = 0
  /\ \A c \in Cbs : ~(c \in listed /\ c \in owed)
  /\ \A c \in Cbs : (c \in listed \/ c \in owed) => got[c] = 0
  /\ \A c \in Cbs : got[c] <= 1
  /\ \A c \in Cbs : (got[c] > 0 \/ c \in owed) => done /\ Matches(filt[c], wok)
  /\ \A t \in Comps : (cpc[t] = "won" \/ cret[t] = "true") => winner = t
  /\ \A t \in Comps : cret[t] = "true" => cpc[t] = "ret"
  /\ \A t \in Comps : cpc[t] \in {"idle", "called", "won", "lost"} => cret[t] = "-"

Safety ==
  /\ \A t1, t2 \in Comps : (cret[t1] = "true" \/ cpc[t1] = "won") /\ (cret[t2] = "true" \/ cpc[t2] = "won") => t1 = t2
  /\ WinnerReturnsTrue /\ DoneIffWinner /\ AtMostOnce /\ NotBeforeDone /\ FilterRespected /\ NothingListedAfterDone

LEMMA InitInv == (\E z \in BOOLEAN : AInit(z)) => IndInv
  BY NoDash DEF AInit, IndInv, PcR, PcC, Filters, Matches

LEMMA InvSafety == IndInv => Safety
  BY NoDash DEF IndInv, Safety, WinnerReturnsTrue, DoneIffWinner, AtMostOnce, NotBeforeDone, FilterRespected, NothingListedAfterDone

LEMMA NextInv == IndInv /\ [ANext]_avars => IndInv'
<1> SUFFICES ASSUME IndInv, [ANext]_avars PROVE IndInv'
  OBVIOUS
<1> USE NoDash DEF IndInv, PcR, PcC, Filters, Matches
<1>1 ASSUME NEW c \in Cbs, NEW f \in Filters, RCall(c, f) PROVE IndInv'
  BY <1>1 DEF RCall
<1>2 ASSUME NEW c \in Cbs, RLin(c) PROVE IndInv'
  BY <1>2 DEF RLin
<1>3 ASSUME NEW c \in Cbs, RRet(c) PROVE IndInv'
  BY <1>3 DEF RRet
<1>4 ASSUME NEW t \in Comps, NEW ok \in BOOLEAN, CCall(t, ok) PROVE IndInv'
  BY <1>4 DEF CCall
<1>5 ASSUME NEW t \in Comps, CLin(t) PROVE IndInv'
  BY <1>5 DEF CLin
<1>6 ASSUME NEW t \in Comps, NEW r \in BOOLEAN, CRet(t, r) PROVE IndInv'
  BY <1>6 DEF CRet
<1>7 ASSUME NEW c \in Cbs, NEW w \in Comps, Deliver(c, w) PROVE IndInv'
  BY <1>7 DEF Deliver
<1>8 CASE UNCHANGED avars
  BY <1>8 DEF avars
<1> QED
  BY <1>1, <1>2, <1>3, <1>4, <1>5, <1>6, <1>7, <1>8 DEF ANext

THEOREM SafetyForAllSizes == ASpec => []Safety
<1>1 ASpec => []IndInv
  BY InitInv, NextInv, PTL DEF ASpec
<1> QED
  BY <1>1, InvSafety, PTL
==========================================================================
