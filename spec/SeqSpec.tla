------------------------------- MODULE SeqSpec -------------------------------
(* Reference semantics of the eager fp.Seq operations on sequences of integers - the
   "corresponding eager fp.Seq/slice computation" that C12 refers to and the contents of the
   sequence versions of C04. *)
EXTENDS Integers, Sequences, FiniteSets, SequencesExt, Functions, FiniteSetsExt

Pred(p, x) == CASE p = "even" -> x % 2 = 0
                [] p = "odd"  -> x % 2 = 1
                [] p = "lt3"  -> x < 3
                [] p = "ge2"  -> x >= 2
                [] p = "true" -> TRUE
                [] OTHER      -> FALSE       \* "false"
Preds == {"even", "odd", "lt3", "ge2", "true", "false"}
Fn(f, x) == CASE f = "inc" -> x + 1
              [] f = "dbl" -> 2 * x
              [] f = "neg" -> 0 - x
              [] f = "mod3" -> x % 3
              [] OTHER -> x                  \* "id"
Fns == {"inc", "dbl", "neg", "mod3", "id"}

SMap(s, f)      == [i \in 1..Len(s) |-> Fn(f, s[i])]
SFilter(s, p)   == SelectSeq(s, LAMBDA x : Pred(p, x))
SFilterNot(s, p) == SelectSeq(s, LAMBDA x : ~Pred(p, x))
STake(s, n)     == SubSeq(s, 1, IF n < Len(s) THEN (IF n < 0 THEN 0 ELSE n) ELSE Len(s))
SDrop(s, n)     == SubSeq(s, (IF n < 0 THEN 0 ELSE n) + 1, Len(s))
STail(s)        == IF s = <<>> THEN <<>> ELSE Tail(s)
SInit(s)        == IF s = <<>> THEN <<>> ELSE SubSeq(s, 1, Len(s) - 1)
SReverse(s)     == [i \in 1..Len(s) |-> s[Len(s) + 1 - i]]
RECURSIVE STakeWhile(_, _), SDropWhile(_, _), SDistinct(_, _), SScan(_, _), SFlat(_, _)
STakeWhile(s, p) == IF s = <<>> \/ ~Pred(p, Head(s)) THEN <<>> ELSE <<Head(s)>> \o STakeWhile(Tail(s), p)
SDropWhile(s, p) == IF s = <<>> \/ ~Pred(p, Head(s)) THEN s ELSE SDropWhile(Tail(s), p)
SDistinct(s, seen) == IF s = <<>> THEN <<>>
                      ELSE IF Head(s) \in seen THEN SDistinct(Tail(s), seen)
                      ELSE <<Head(s)>> \o SDistinct(Tail(s), seen \cup {Head(s)})
SScan(s, acc)   == IF s = <<>> THEN <<acc>> ELSE <<acc>> \o SScan(Tail(s), acc + Head(s))     \* running sums from acc
SFlat(s, f)     == IF s = <<>> THEN <<>> ELSE <<Head(s), Fn(f, Head(s))>> \o SFlat(Tail(s), f)   \* x -> [x, f(x)]
SSpanL(s, p)    == STakeWhile(s, p)
SSpanR(s, p)    == SDropWhile(s, p)
SSum(s)         == FoldLeft(LAMBDA a, x : a + x, 0, s)
SeqSorted(s)    == \A i \in 1..(Len(s) - 1) : s[i] <= s[i + 1]
IsPerm(s, t)    == Len(s) = Len(t) /\ \A x \in Range(s) \cup Range(t) :
                     Cardinality({i \in 1..Len(s) : s[i] = x}) = Cardinality({i \in 1..Len(t) : t[i] = x})
SSort(s)        == SortSeq(s, LAMBDA a, b : a < b)
SMin(s)         == IF s = <<>> THEN <<>> ELSE <<Min(Range(s))>>
SMax(s)         == IF s = <<>> THEN <<>> ELSE <<Max(Range(s))>>
Min2(a, b)      == IF a < b THEN a ELSE b
\* Zip with a literal second operand, Zip3 with the literal and the reversed first n elements of the literal: the result
\* ends with the shortest operand; element i is encoded as x + 10 * l[i] (+ 100 * third[i])
SZip(s, l)      == [i \in 1..Min2(Len(s), Len(l)) |-> s[i] + 10 * l[i]]
ZThird(l, n)    == LET k == Min2(n, Len(l)) IN [i \in 1..k |-> l[k + 1 - i]]
SZip3(s, l, n)  == LET t == ZThird(l, n) IN [i \in 1..Min2(Len(s), Min2(Len(l), Len(t))) |-> s[i] + 10 * l[i] + 100 * t[i]]
SZipIdx(s)      == [i \in 1..Len(s) |-> 100 * (i - 1) + s[i]]      \* (index, x) encoded as 100*index + x
=============================================================================
