------------------------------- MODULE SeqStore -------------------------------
(* Version store for the persistent sequence-like values (fp.Seq, fp.List, iterators collected
   from them): every value obtained is a version whose content - a sequence of integers - never
   changes.  "base" versions are the raw Go slices (read up to their capacity) that the harness
   hands to the library as inputs: sub-slices of one backing array, slices with spare capacity.
   C04 = no step changes any existing version; the contents are the eager semantics of SeqSpec. *)
EXTENDS SeqSpec, TLC

CONSTANTS SMaxVer, SMaxLen, SVals

VARIABLES svals     \* sequence of contents

SInitS == svals = <<>>
SReset == svals' = <<>>

\* the content produced by an operation from its sources
SResult(op, a, b, n, x, p, f, lit) ==
  CASE op = "lit"       -> lit
    [] op = "append"    -> Append(svals[a], x)
    [] op = "append2"   -> svals[a] \o <<x, n>>
    [] op = "append0"   -> svals[a]
    [] op = "prepend"   -> <<x>> \o svals[a]
    [] op = "concat"    -> svals[a] \o svals[b]
    [] op = "take"      -> STake(svals[a], n)
    [] op = "drop"      -> SDrop(svals[a], n)
    [] op = "tail"      -> STail(svals[a])
    [] op = "init"      -> SInit(svals[a])
    [] op = "reverse"   -> SReverse(svals[a])
    [] op = "filter"    -> SFilter(svals[a], p)
    [] op = "filternot" -> SFilterNot(svals[a], p)
    [] op = "map"       -> SMap(svals[a], f)
    [] op = "flatmap"   -> SFlat(svals[a], f)
    [] op = "sort"      -> SSort(svals[a])
    [] op = "distinct"  -> SDistinct(svals[a], {})
    [] op = "scan"      -> SScan(svals[a], 0)
    [] op = "spanl"     -> SSpanL(svals[a], p)
    [] op = "spanr"     -> SSpanR(svals[a], p)
    [] op = "partl"     -> SFilter(svals[a], p)
    [] op = "partr"     -> SFilterNot(svals[a], p)
    [] op = "zipidx"    -> SZipIdx(svals[a])
    [] op = "min"       -> SMin(svals[a])
    [] op = "max"       -> SMax(svals[a])
    [] op = "sum"       -> <<SSum(svals[a])>>
    [] op = "same"      -> svals[a]
SOps == {"append", "append2", "append0", "prepend", "concat", "take", "drop", "tail", "init", "reverse", "filter", "filternot",
         "map", "flatmap", "sort", "distinct", "scan", "spanl", "spanr", "partl", "partr", "zipidx", "min", "max", "sum", "same"}

SApply(op, a, b, n, x, p, f, lit) ==
  /\ Len(svals) < SMaxVer
  /\ op # "lit" => a \in DOMAIN svals /\ op \in SOps
  /\ op = "concat" => b \in DOMAIN svals
  /\ svals' = Append(svals, SResult(op, a, b, n, x, p, f, lit))

\* free-running store for model checking the reference itself
Lits == UNION {[1..k -> SVals] : k \in 0..SMaxLen}
SNext == \/ \E lit \in Lits : SApply("lit", 0, 0, 0, 0, "true", "id", lit)
         \/ \E a, b \in DOMAIN svals, op \in SOps, n \in 0..SMaxLen, x \in SVals, p \in Preds, f \in {"inc", "mod3"} :
               /\ Len(SResult(op, a, b, n, x, p, f, <<>>)) <= 2 * SMaxLen
               /\ SApply(op, a, b, n, x, p, f, <<>>)
SSpec == SInitS /\ [][SNext]_svals

SOldVersionsIntact == [][\A i \in DOMAIN svals : i \in DOMAIN svals' /\ svals'[i] = svals[i]]_svals
\* laws of the reference (sanity of the oracle), over every reachable version
SLaws == \A i \in DOMAIN svals : LET s == svals[i] IN
           /\ SReverse(SReverse(s)) = s
           /\ \A n \in 0..(Len(s) + 1) : STake(s, n) \o SDrop(s, n) = s
           /\ SeqSorted(SSort(s)) /\ IsPerm(SSort(s), s)
           /\ \A p \in Preds : /\ SSpanL(s, p) \o SSpanR(s, p) = s
                               /\ IsPerm(SFilter(s, p) \o SFilterNot(s, p), s)
                               /\ Len(SFilter(s, p)) + Len(SFilterNot(s, p)) = Len(s)
           /\ Range(SDistinct(s, {})) = Range(s) /\ Cardinality(Range(s)) = Len(SDistinct(s, {}))
           /\ Len(SScan(s, 0)) = Len(s) + 1 /\ SScan(s, 0)[Len(s) + 1] = SSum(s)
           /\ (s # <<>> => SInit(s) \o <<s[Len(s)]>> = s /\ <<s[1]>> \o STail(s) = s)
=============================================================================
