------------------------------- MODULE StateTSpec -------------------------------
(* fp.StateT[S, A] = S -> (Try[A], S)   (C17).  State S is an integer; every result A is a sequence of
   integers (unit = <<>>, a scalar = <<x>>) so that one program grammar covers all combinators.

   Run(p, s) is the reference semantics: the result, the final state - on failure the state at the point of
   failure -, the primitive steps that were executed, in order, and every recovery-handler invocation with
   the error and the state it was handed.  The state-monad laws are checked on this semantics by TLC over a
   program space (MCStateT); the real statet package is bound to it by running the same programs
   (exported by TLC, or random) and validating the recorded runs (TraceStateT). *)
EXTENDS Integers, Sequences, FiniteSets, TLC

Fn(f, x) == CASE f = "inc" -> x + 1 [] f = "dbl" -> 2 * x [] f = "zero" -> 0 [] OTHER -> x
Scalar(v) == IF v = <<>> THEN 0 ELSE v[1]
MapV(f, v) == [i \in DOMAIN v |-> Fn(f, v[i])]

Prim(k, id, x, f, e) == [k |-> k, id |-> id, x |-> x, f |-> f, e |-> e]
\* continuations: value -> program
Cont(c, v) ==
  LET x == Scalar(v) IN
  CASE c = "kput"  -> [k |-> "then", p |-> Prim("put", 51, x, "-", "-"), q |-> Prim("pure", 52, x, "-", "-")]
    [] c = "kpure" -> Prim("pure", 54, x + 1, "-", "-")
    [] c = "kfail" -> IF x % 2 = 1 THEN Prim("fail", 55, 0, "-", "e2") ELSE Prim("pure", 56, x, "-", "-")
    [] c = "kget"  -> Prim("get", 57, 0, "-", "-")
    [] OTHER       -> Prim("modifyS", 58, 0, "inc", "-")
Conts == {"kput", "kpure", "kfail", "kget", "kmods"}

Ok(v, s, tr, hs)   == [ok |-> TRUE, v |-> v, e |-> "-", s |-> s, tr |-> tr, hs |-> hs]
Fail(e, s, tr, hs) == [ok |-> FALSE, v |-> <<>>, e |-> e, s |-> s, tr |-> tr, hs |-> hs]
\* r2 happened after r1
After(r1, r2) == [r2 EXCEPT !.tr = r1.tr \o r2.tr, !.hs = r1.hs \o r2.hs]

Variants == {"Recover", "RecoverT", "RecoverWithState", "RecoverWithStateT", "RecoverWith",
             "RecoverCase", "RecoverCaseT", "RecoverCaseWith"}
RecoverWithProg == [k |-> "then", p |-> Prim("put", 60, 77, "-", "-"), q |-> Prim("pure", 61, 902, "-", "-")]
\* (x = 1: the recovery program changes the state and then fails itself - the state reported is the one at THAT failure)
RecoverWithProgF == [k |-> "then", p |-> Prim("put", 60, 77, "-", "-"), q |-> Prim("fail", 62, 0, "-", "h")]

RECURSIVE Run(_, _), RunSeq(_, _, _), RunTrav(_, _, _, _), RunFold(_, _, _, _, _)
\* Sequence / Concat: programs one after the other; keep collects all values (Sequence) or the last one (Concat)
RunSeq(ps, s, keep) ==
  IF ps = <<>> THEN Ok(<<>>, s, <<>>, <<>>)
  ELSE LET r1 == Run(Head(ps), s) IN
       IF ~r1.ok THEN r1
       ELSE LET r2 == RunSeq(Tail(ps), r1.s, keep) IN
            IF ~r2.ok THEN After(r1, r2)
            ELSE After(r1, [r2 EXCEPT !.v = IF keep THEN r1.v \o r2.v ELSE (IF Len(ps) = 1 THEN r1.v ELSE r2.v)])
RunTrav(xs, c, s, i) ==
  IF i > Len(xs) THEN Ok(<<>>, s, <<>>, <<>>)
  ELSE LET r1 == Run(Cont(c, <<xs[i]>>), s) IN
       IF ~r1.ok THEN r1
       ELSE LET r2 == RunTrav(xs, c, r1.s, i + 1) IN
            IF ~r2.ok THEN After(r1, r2) ELSE After(r1, [r2 EXCEPT !.v = r1.v \o r2.v])
RunFold(xs, c, s, i, acc) ==
  IF i > Len(xs) THEN Ok(acc, s, <<>>, <<>>)
  ELSE LET r1 == Run(Cont(c, <<xs[i]>>), s) IN
       IF ~r1.ok THEN r1 ELSE After(r1, RunFold(xs, c, r1.s, i + 1, acc \o r1.v))

Run(p, s) ==
  CASE p.k = "put"     -> Ok(<<>>, p.x, <<p.id>>, <<>>)
    [] p.k = "get"     -> Ok(<<s>>, s, <<p.id>>, <<>>)
    [] p.k = "modify"  -> Ok(<<>>, Fn(p.f, s), <<p.id>>, <<>>)
    [] p.k = "modifyS" -> Ok(<<Fn("dbl", s)>>, Fn(p.f, s), <<p.id>>, <<>>)
    [] p.k = "modifyT" -> IF p.x = 1 THEN Fail(p.e, s, <<p.id>>, <<>>) ELSE Ok(<<>>, Fn(p.f, s), <<p.id>>, <<>>)
    [] p.k = "getS"    -> Ok(<<Fn(p.f, s)>>, s, <<p.id>>, <<>>)
    [] p.k = "pure"    -> Ok(<<p.x>>, s, <<p.id>>, <<>>)
    [] p.k = "fail"    -> Fail(p.e, s, <<p.id>>, <<>>)
    [] p.k = "fm"      -> LET r1 == Run(p.p, s) IN IF ~r1.ok THEN r1 ELSE After(r1, Run(Cont(p.c, r1.v), r1.s))
    [] p.k = "then"    -> LET r1 == Run(p.p, s) IN IF ~r1.ok THEN r1 ELSE After(r1, Run(p.q, r1.s))
    [] p.k = "map"     -> LET r1 == Run(p.p, s) IN IF ~r1.ok THEN r1 ELSE [r1 EXCEPT !.v = MapV(p.f, r1.v)]
    \* Ap(Map(P, curried f), Q): the function program runs first, then the argument program - the same as Map2(P, Q, f)
    [] p.k \in {"map2", "ap"} -> LET r1 == Run(p.p, s) IN
                          IF ~r1.ok THEN r1
                          ELSE LET r2 == Run(p.q, r1.s) IN
                               IF ~r2.ok THEN After(r1, r2) ELSE After(r1, [r2 EXCEPT !.v = r1.v \o r2.v])
    \* ApTry / ApOption(Map(P, curried f), a): the program P runs first, whatever the plain operand a is; if P fails that is the
    \* failure; otherwise a failed operand (x = 1: Failure(e3) resp. None) is the failure, with the state P left
    [] p.k \in {"aptry", "apoption"} ->
         LET r1 == Run(p.p, s) IN
         IF ~r1.ok THEN r1
         ELSE IF p.x = 1 THEN [r1 EXCEPT !.ok = FALSE, !.v = <<>>, !.e = IF p.k = "aptry" THEN "e3" ELSE "none"]
         ELSE [r1 EXCEPT !.v = r1.v \o <<8>>]
    [] p.k = "seq"     -> RunSeq(p.ps, s, TRUE)
    [] p.k = "concat"  -> RunSeq(p.ps, s, FALSE)
    [] p.k = "trav"    -> RunTrav(p.xs, p.c, s, 1)
    [] p.k = "foldm"   -> RunFold(p.xs, p.c, s, 1, <<>>)
    [] p.k = "rec"     ->
         LET r1 == Run(p.p, s) IN
         IF r1.ok THEN r1                        \* successes pass through untouched, the handler does not run
         ELSE LET withState == p.var \in {"RecoverWithState", "RecoverWithStateT"}
                  defined == ~(p.var \in {"RecoverCase", "RecoverCaseT", "RecoverCaseWith"}) \/ r1.e = "e1"
                  h == <<[var |-> p.var, s |-> IF withState THEN r1.s ELSE 0 - 1, e |-> r1.e]>>
                  base == [r1 EXCEPT !.hs = r1.hs \o h]
              IN IF ~defined THEN r1
                 ELSE CASE p.var \in {"Recover", "RecoverCase"} -> [base EXCEPT !.ok = TRUE, !.v = <<900>>, !.e = "-"]
                        [] p.var \in {"RecoverT", "RecoverCaseT"} ->
                             IF p.x = 1 THEN [base EXCEPT !.e = "h"] ELSE [base EXCEPT !.ok = TRUE, !.v = <<901>>, !.e = "-"]
                        [] p.var = "RecoverWithState" -> [base EXCEPT !.ok = TRUE, !.v = <<1000 + r1.s>>, !.e = "-"]
                        [] p.var = "RecoverWithStateT" ->
                             IF p.x = 1 THEN [base EXCEPT !.e = "h"] ELSE [base EXCEPT !.ok = TRUE, !.v = <<1000 + r1.s>>, !.e = "-"]
                        [] OTHER -> After(base, Run(IF p.x = 1 THEN RecoverWithProgF ELSE RecoverWithProg, r1.s))     \* RecoverWith / RecoverCaseWith
=============================================================================
