---- MODULE Stream ----
(* Implementation-shaped model of the look-ahead iterators of iterator.go (Take, TakeWhile, DropWhile,
   Filter) as nested state machines with their flags and caches, over a source with a pull counter.
   FilterMode = "prefetch" is Filter as first found (Next searches for the following match before it
   returns), "lazy" finds on demand.  Checked for all sources, all one- and two-stage pipelines and all
   call patterns: the answers are those of the abstract iterator over the eager output (IterSpec), and
   the pull counter respects the demand bound of IterSpec. *)
EXTENDS Naturals, Sequences, FiniteSets, TLC
CONSTANTS Val, MaxLen, MaxCalls, FilterMode   \* "prefetch" = as written ; "lazy" = find on demand
Pred == {"lt1", "even", "all", "none"}
P(p, v) == CASE p = "lt1" -> v < 1 [] p = "even" -> v % 2 = 0 [] p = "all" -> TRUE [] p = "none" -> FALSE
None == <<>>
Some(v) == <<v>>

\* ---------- eager reference ----------
RECURSIVE SeqFilter(_,_), SeqTakeWhile(_,_), SeqDropWhile(_,_)
SeqFilter(s, p) == IF s = <<>> THEN <<>> ELSE (IF P(p, Head(s)) THEN <<Head(s)>> ELSE <<>>) \o SeqFilter(Tail(s), p)
SeqTakeWhile(s, p) == IF s = <<>> \/ ~P(p, Head(s)) THEN <<>> ELSE <<Head(s)>> \o SeqTakeWhile(Tail(s), p)
SeqDropWhile(s, p) == IF s = <<>> THEN <<>> ELSE IF P(p, Head(s)) THEN SeqDropWhile(Tail(s), p) ELSE s
SeqTake(s, n) == SubSeq(s, 1, IF n < Len(s) THEN n ELSE Len(s))
RECURSIVE Ref(_,_)
Ref(pipe, s) == \* pipe is a sequence of stages applied left to right
  IF pipe = <<>> THEN s
  ELSE LET st == Head(pipe) IN
       Ref(Tail(pipe), CASE st.t = "take" -> SeqTake(s, st.n)
                         [] st.t = "tw"   -> SeqTakeWhile(s, st.p)
                         [] st.t = "dw"   -> SeqDropWhile(s, st.p)
                         [] st.t = "flt"  -> SeqFilter(s, st.p))

\* ---------- the machines; state threaded functionally; src = [t:"src", s, pos] ----------
\* every operation returns [it |-> new state, r |-> result (bool or value), pn |-> panicked]
RECURSIVE HasNext(_), Next(_), Find(_,_), FindNot(_,_)
Find(it, p) == \* Iterator.Find on the upstream: pulls until a match or exhaustion
  LET h == HasNext(it) IN
  IF ~h.r THEN [it |-> h.it, r |-> None]
  ELSE LET n == Next(h.it) IN
       IF P(p, n.r) THEN [it |-> n.it, r |-> Some(n.r)] ELSE Find(n.it, p)

HasNext(it) ==
  CASE it.t = "src" -> [it |-> it, r |-> it.pos < Len(it.s)]
    [] it.t = "take" -> IF it.i < it.n THEN LET h == HasNext(it.up) IN [it |-> [it EXCEPT !.up = h.it], r |-> h.r]
                        ELSE [it |-> it, r |-> FALSE]
    [] it.t = "tw" -> IF it.breaking THEN [it |-> it, r |-> FALSE]
                      ELSE IF it.fv # None THEN [it |-> it, r |-> TRUE]
                      ELSE LET h == HasNext(it.up) IN
                           IF ~h.r THEN [it |-> [it EXCEPT !.up = h.it], r |-> FALSE]
                           ELSE LET n == Next(h.it) IN
                                IF P(it.p, n.r) THEN [it |-> [it EXCEPT !.up = n.it, !.fv = Some(n.r)], r |-> TRUE]
                                ELSE [it |-> [it EXCEPT !.up = n.it, !.breaking = TRUE], r |-> FALSE]
    [] it.t = "dw" -> IF it.first # None THEN [it |-> it, r |-> TRUE]
                      ELSE IF it.found THEN LET h == HasNext(it.up) IN [it |-> [it EXCEPT !.up = h.it], r |-> h.r]
                      ELSE LET g == FindNot(it.up, it.p) IN      \* DropWhile's loop: first element with ~p
                           IF g.r = None THEN [it |-> [it EXCEPT !.up = g.it], r |-> FALSE]
                           ELSE [it |-> [it EXCEPT !.up = g.it, !.first = g.r, !.found = TRUE], r |-> TRUE]
    [] it.t = "flt" -> IF it.first
                       THEN LET f == Find(it.up, it.p) IN [it |-> [it EXCEPT !.up = f.it, !.fv = f.r, !.first = FALSE], r |-> f.r # None]
                       ELSE [it |-> it, r |-> it.fv # None]

Next(it) ==
  CASE it.t = "src" -> IF it.pos < Len(it.s) THEN [it |-> [it EXCEPT !.pos = @ + 1], r |-> it.s[it.pos + 1], pn |-> FALSE]
                       ELSE [it |-> it, r |-> 0, pn |-> TRUE]
    [] it.t = "take" -> LET h == HasNext(it) IN
                        IF h.r THEN LET n == Next(h.it.up) IN [it |-> [h.it EXCEPT !.up = n.it, !.i = @ + 1], r |-> n.r, pn |-> n.pn]
                        ELSE [it |-> h.it, r |-> 0, pn |-> TRUE]
    [] it.t = "tw" -> LET h == HasNext(it) IN
                      IF h.r THEN [it |-> [h.it EXCEPT !.fv = None], r |-> h.it.fv[1], pn |-> FALSE]
                      ELSE [it |-> h.it, r |-> 0, pn |-> TRUE]
    [] it.t = "dw" -> LET h == HasNext(it) IN
                      IF h.r THEN IF h.it.first # None THEN [it |-> [h.it EXCEPT !.first = None], r |-> h.it.first[1], pn |-> FALSE]
                                  ELSE LET n == Next(h.it.up) IN [it |-> [h.it EXCEPT !.up = n.it], r |-> n.r, pn |-> n.pn]
                      ELSE [it |-> h.it, r |-> 0, pn |-> TRUE]
    [] it.t = "flt" -> LET h == HasNext(it) IN
                       IF h.r THEN IF it.mode = "prefetch"
                                   THEN LET f == Find(h.it.up, it.p) IN [it |-> [h.it EXCEPT !.up = f.it, !.fv = f.r], r |-> h.it.fv[1], pn |-> FALSE]
                                   ELSE [it |-> [h.it EXCEPT !.fv = None, !.first = TRUE], r |-> h.it.fv[1], pn |-> FALSE]
                       ELSE [it |-> h.it, r |-> 0, pn |-> TRUE]

FindNot(it, p) ==
  LET h == HasNext(it) IN
  IF ~h.r THEN [it |-> h.it, r |-> None]
  ELSE LET n == Next(h.it) IN
       IF ~P(p, n.r) THEN [it |-> n.it, r |-> Some(n.r)] ELSE FindNot(n.it, p)

RECURSIVE Pulled(_)
Pulled(it) == IF it.t = "src" THEN it.pos ELSE Pulled(it.up)

\* ---------- building a pipeline over a source ----------
Stage(st, up, mode) == CASE st.t = "take" -> [t |-> "take", i |-> 0, n |-> st.n, up |-> up]
                   [] st.t = "tw"   -> [t |-> "tw", breaking |-> FALSE, fv |-> None, p |-> st.p, up |-> up]
                   [] st.t = "dw"   -> [t |-> "dw", found |-> FALSE, first |-> None, p |-> st.p, up |-> up]
                   [] st.t = "flt"  -> [t |-> "flt", first |-> TRUE, fv |-> None, p |-> st.p, up |-> up, mode |-> mode]
RECURSIVE Build(_,_,_)
Build(pipe, up, mode) == IF pipe = <<>> THEN up ELSE Build(Tail(pipe), Stage(Head(pipe), up, mode), mode)

Stages == [t : {"take"}, n : 0..2, p : {"all"}] \cup [t : {"tw", "dw", "flt"}, n : {0}, p : Pred]
Seqs == UNION {[1..n -> Val] : n \in 0..MaxLen}

VARIABLES src, pipe, it, taken, last, ncalls, demand
vars == <<src, pipe, it, taken, last, ncalls, demand>>
Out == Ref(pipe, src)
Max(a, b) == IF a > b THEN a ELSE b
Min(S) == CHOOSE x \in S : \A y \in S : x <= y
Prefix(s, m) == SubSeq(s, 1, m)
\* Need(c): the shortest source prefix that settles whether there is a c-th output element (as IterSpec!Need):
\* it determines c elements or shows that the output has ended (take count reached, takeWhile met a failing element)
RECURSIVE KnownClosed(_, _, _)
KnownClosed(pp, s, closed) ==
  IF pp = <<>> THEN closed
  ELSE LET st == Head(pp) IN
       CASE st.t = "take" -> KnownClosed(Tail(pp), SeqTake(s, st.n), closed \/ Len(s) >= st.n)
         [] st.t = "tw"   -> KnownClosed(Tail(pp), SeqTakeWhile(s, st.p), closed \/ \E i \in 1..Len(s) : ~P(st.p, s[i]))
         [] st.t = "dw"   -> KnownClosed(Tail(pp), SeqDropWhile(s, st.p), closed)
         [] st.t = "flt"  -> KnownClosed(Tail(pp), SeqFilter(s, st.p), closed)
Need(c) == Min({m \in 0..Len(src) : Len(Ref(pipe, Prefix(src, m))) >= c \/ KnownClosed(pipe, Prefix(src, m), FALSE)} \cup {Len(src)})
DemandBound == Pulled(it) <= Need(demand) + 2 * Len(pipe)
Init == /\ src \in Seqs
        /\ pipe \in {<<a>> : a \in Stages} \cup {<<a, b>> : a \in Stages, b \in Stages}
        /\ it = Build(pipe, [t |-> "src", s |-> src, pos |-> 0], FilterMode)
        /\ taken = 0 /\ last = [c |-> "init", r |-> FALSE, v |-> 0, pn |-> FALSE] /\ ncalls = 0 /\ demand = 0
CallHasNext == /\ ncalls < MaxCalls /\ LET h == HasNext(it) IN
                  /\ it' = h.it /\ last' = [c |-> "has", r |-> h.r, v |-> 0, pn |-> FALSE]
                  /\ demand' = Max(demand, taken + 1)
               /\ ncalls' = ncalls + 1 /\ UNCHANGED <<src, pipe, taken>>
CallNext == /\ ncalls < MaxCalls /\ LET n == Next(it) IN
               /\ it' = n.it /\ last' = [c |-> "next", r |-> FALSE, v |-> n.r, pn |-> n.pn]
               /\ taken' = IF n.pn THEN taken ELSE taken + 1
               /\ demand' = Max(demand, taken + 1)
            /\ ncalls' = ncalls + 1 /\ UNCHANGED <<src, pipe>>
Nxt == CallHasNext \/ CallNext
Spec == Init /\ [][Nxt]_vars

\* protocol: HasNext tells the truth and changes nothing observable; Next yields the next element or panics when exhausted
HasNextRight == last.c = "has" => last.r = (taken < Len(Out))
NextRight == last.c = "next" => IF last.pn THEN taken = Len(Out) ELSE last.v = Out[taken]
View == <<src, pipe, it, taken, last, demand>>
====
