---- MODULE TraceArity ----
(* Accepts the observed wiring of every member of every arity-indexed family of the real library iff it is Arity!W and the
   user functions ran exactly Arity!Calls times. *)
EXTENDS Arity, Json
Trace == ndJsonDeserialize("trace.ndjson")
VARIABLE l
Ev == Trace[l]
TMember == /\ l <= Len(Trace) /\ Ev.e = "Arity" /\ l' = l + 1 /\ UNCHANGED avars
           /\ Ev.fam \in Families
           /\ Ev.w = W(Ev.fam, Ev.n)
           /\ Ev.calls = Calls(Ev.fam, Ev.n)
TInit == l = 1 /\ fam = "as.Tuple" /\ n = 2
TSpec == TInit /\ [][TMember]_<<l, avars>>
HighWater == TLCSet(1, IF TLCGet(1) < l THEN l ELSE TLCGet(1))
Accepted == /\ PrintT(<<"HIGHWATER", TLCGet(1), Len(Trace)>>)
            /\ TLCGet(1) = Len(Trace) + 1
ASSUME TLCSet(1, 0)
====
