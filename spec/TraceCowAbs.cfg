SPECIFICATION TSpec
CONSTANTS
  Threads <- NameThreads
  Keys <- NameKeys
  KeyOrder <- NameKeyOrder
CONSTRAINT HighWater
POSTCONDITION Accepted
CHECK_DEADLOCK FALSE
