---- MODULE TraceCowAbs ----
(* Accepts an ndjson log of call/return histories of the real mutable.CopyOnWriteMap iff every
   history is linearizable with respect to CowAbs: TLC searches for the linearization points. *)
EXTENDS CowAbs, Json

Trace == ndJsonDeserialize("trace.ndjson")
NameThreads == {"t0", "t1", "t2", "t3", "t4"}
NameKeys == {"a", "b", "c"}
NameKeyOrder == <<"a", "b", "c">>

VARIABLE l
tvars == <<cvars, l>>
Ev == Trace[l]
Is(e) == l <= Len(Trace) /\ Trace[l].e = e
Adv == l' = l + 1

TInit  == l = 1 /\ CInit
TReset == Is("Init") /\ CReset /\ Adv
TCall  == Is("Call") /\ Adv
          /\ Call(Ev.t, [op |-> Ev.op, k |-> Ev.k, k2 |-> Ev.k2, v |-> Ev.v, fn |-> Ev.fn])
TRet   == Is("Ret") /\ Ret(Ev.t, Ev.res) /\ Adv
TEnd   == Is("End") /\ (\A t \in Threads : pend[t] = NoCall) /\ Adv /\ UNCHANGED cvars
Silent == l <= Len(Trace) /\ (\E t \in Threads : Lin(t)) /\ UNCHANGED l

TNext == TReset \/ TCall \/ TRet \/ TEnd \/ Silent
TSpec == TInit /\ [][TNext]_tvars

HighWater == TLCSet(1, IF TLCGet(1) < l THEN l ELSE TLCGet(1))
Accepted == /\ PrintT(<<"HIGHWATER", TLCGet(1), Len(Trace)>>)
            /\ TLCGet(1) = Len(Trace) + 1
ASSUME TLCSet(1, 0)
====
