SPECIFICATION TSpec
CONSTANT MaxNF = 1
CONSTRAINT HighWater
POSTCONDITION Accepted
CHECK_DEADLOCK FALSE
