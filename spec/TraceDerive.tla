---- MODULE TraceDerive ----
(* Accepts what the derive driver observed on gombok's real output iff gombok ran, the package (types, generated instances and
   the registry that calls every instance with the documented name and the documented number of instance arguments) passes
   go vet and go build, every derived instance agreed with the field-by-field reference on every sampled pair / triple
   (Derive!EqIsConjunction, HashRespectsEq, OrdIsLexicographic, MonoidIsFieldwise; Clone: an equal copy sharing no mutable
   storage), nothing panicked, and the use counters show only instances Derive!Resolve selects for the overridable field types:
   a shadowed instance (the type's own package when the working package declares one) was never evaluated.  That the selected
   one WAS evaluated is not demanded of the counters (short-circuiting may skip it); it follows from the law agreement, because
   the overriding instances differ semantically from the fallbacks (equality modulo 10, descending order, product). *)
EXTENDS Derive, Json
Trace == ndJsonDeserialize("trace.ndjson")
VARIABLE l
Ev == Trace[l]
Is(e) == l <= Len(Trace) /\ Trace[l].e = e
Adv == l' = l + 1 /\ UNCHANGED dvars
ToSet(s) == {s[i] : i \in DOMAIN s}
TGenerate == Is("Generate") /\ Ev.gombok /\ Ev.build /\ Ev.vet /\ Ev.driver /\ Ev.deterministic /\ Adv
LawsOK(cls, ok) ==
  CASE cls = "eq" -> ok.agree
    [] cls = "hash" -> ok.eqagree /\ ok.consistent
    [] cls = "ord" -> ok.lessagree /\ ok.eqagree
    [] cls = "monoid" -> ok.combine /\ ok.empty
    [] cls = "clone" -> ok.equal /\ ok.detached
TDerived == /\ Is("Derived") /\ Adv
            /\ Ev.panicked = ""
            /\ LawsOK(Ev.cls, Ev.ok)
            /\ LET cs == ToSet(Ev.cands)
                   used == ToSet(Ev.used)
                   must == {Chosen(Ev.cls, c) : c \in cs}
                   \* (also: instances of ANOTHER typeclass that the selected instances legitimately ask for - the overriding EqSeq
                   \*  of the @fp.ImportGiven package takes an Ord of the element type)
                   may == must \cup UNION {Embedded(Ev.cls, c) : c \in cs}
                               \cup {Chosen(a.cls, a) : a \in ToSet(Ev.also)} \cup UNION {Embedded(a.cls, a) : a \in ToSet(Ev.also)}
                   never == UNION {Shadowed(Ev.cls, c) : c \in cs}
               IN /\ used \cap never = {}
                  /\ used \subseteq may
\* one comparison of a real derived instance: the verdicts of the field instances (from the field-by-field reference) and the
\* verdict of the derived instance; the specification's composition decides what the latter must be
TObs == /\ Is("DObs") /\ Adv
        /\ CASE Ev.cls = "eq" -> Ev.got = CEqV(Ev.feq, 1)
             [] Ev.cls = "ord" -> Ev.got = CLessV(Ev.feq, Ev.fless, 1) /\ Ev.goteq = CEqV(Ev.feq, 1)
             [] Ev.cls = "hash" -> Ev.goteq = CEqV(Ev.feq, 1) /\ (CEqV(Ev.feq, 1) => Ev.hasheq)
TNext == TGenerate \/ TDerived \/ TObs
TInit == l = 1 /\ ks = <<>> /\ os = <<>> /\ ms = <<>> /\ va = <<>> /\ vb = <<>> /\ vc = <<>>
TSpec == TInit /\ [][TNext]_<<l, dvars>>
HighWater == TLCSet(1, IF TLCGet(1) < l THEN l ELSE TLCGet(1))
Accepted == /\ PrintT(<<"HIGHWATER", TLCGet(1), Len(Trace)>>)
            /\ TLCGet(1) = Len(Trace) + 1
ASSUME TLCSet(1, 0)
====
