---- MODULE TraceEffect ----
(* Accepts a log of Try / Option / Either programs run with the real packages iff every run returned the value
   EffectSpec!Eval prescribes - the failure of the first failing operand with its own error, or the success - and
   invoked exactly the user callbacks Eval lists, in that order (none after a failure, each once). *)
EXTENDS EffectSpec, Json
Trace == ndJsonDeserialize("trace.ndjson")
VARIABLES l, prog, monad
tvars == <<l, prog, monad>>
Ev == Trace[l]
Is(e) == l <= Len(Trace) /\ Trace[l].e = e
Adv == l' = l + 1
TInit  == l = 1 /\ prog = [k |-> "unit", v |-> <<>>] /\ monad = "try"
TReset == Is("Init") /\ prog' = Ev.prog /\ monad' = Ev.monad /\ Adv
TRun   == /\ Is("Run") /\ Adv /\ UNCHANGED <<prog, monad>>
          /\ LET r == Eval(prog, monad) IN
             /\ Ev.ok = r.ok /\ Ev.v = r.v /\ Ev.err = r.e
             /\ Ev.log = r.log
          \* FoldM / Traverse stop pulling their source at the first failure: at most one element beyond those the step
          \* function was called for (pulled = -1: the program has no counted source)
          /\ Ev.pulled <= Ev.stepcalls + 1
TEnd   == Is("End") /\ Adv /\ UNCHANGED <<prog, monad>>
\* the unit is total (EffectSpec!U(x) is a success for every x): also for the nil value of a slice, pointer, map, interface,
\* func or chan payload type, for Map to nil, and FlatMap(unit(nil), f) calls f with nil (left identity)
TUnitNil == Is("UnitNil") /\ Adv /\ UNCHANGED <<prog, monad>> /\ Ev.ok /\ Ev.called
TNext  == TReset \/ TRun \/ TEnd \/ TUnitNil
TSpec  == TInit /\ [][TNext]_tvars
HighWater == TLCSet(1, IF TLCGet(1) < l THEN l ELSE TLCGet(1))
Accepted == /\ PrintT(<<"HIGHWATER", TLCGet(1), Len(Trace)>>)
            /\ TLCGet(1) = Len(Trace) + 1
ASSUME TLCSet(1, 0)
====
