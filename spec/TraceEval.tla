---- MODULE TraceEval ----
(* Accepts a log of lazy.Eval executions on the real library: every result equals the strict value of
   the program (EvalSpec!Strict), no deferred computation of the program runs twice - however often Get
   is called and from however many goroutines -, and tail-recursive programs of any depth run at a
   constant Go stack depth with one execution per step. *)
EXTENDS EvalSpec, Json

Trace == ndJsonDeserialize("trace.ndjson")
VARIABLES l, executed
tvars == <<evars, l, executed>>
Ev == Trace[l]
Is(e) == l <= Len(Trace) /\ Trace[l].e = e
Adv == l' = l + 1
Idle == UNCHANGED <<t, result, ran, maxDepth, steps>>

RECURSIVE StaticIds(_)
StaticIds(e) == CASE e.k = "call" -> {e.id}
                  [] e.k = "tail" -> {e.id} \cup StaticIds(e.e)
                  [] e.k \in {"map", "fm"} -> StaticIds(e.e)
                  [] e.k = "map2" -> StaticIds(e.a) \cup StaticIds(e.b)
                  [] OTHER -> {}

TInit  == l = 1 /\ EInit([k |-> "done", v |-> 0]) /\ executed = {}
TReset == Is("Init") /\ prog' = Ev.prog /\ executed' = {} /\ Idle /\ Adv
\* a deferred computation runs: one created by the program text runs at most once; those created by a
\* continuation (ids 90..) are new objects every time the continuation is applied
TExec  == /\ Is("Exec") /\ Adv /\ Idle /\ UNCHANGED prog
          /\ IF Ev.id < 90 THEN Ev.id \in StaticIds(prog) /\ Ev.id \notin executed /\ executed' = executed \cup {Ev.id}
             ELSE UNCHANGED executed
TResult == Is("Result") /\ Ev.v = Strict(prog) /\ Adv /\ Idle /\ UNCHANGED <<prog, executed>>
ChainWant(shape, n) == CASE shape = "mapped" -> n + 2 [] shape = "flatmapped" -> n + 10
                         [] shape = "evenodd" -> 1 - (n % 2) [] shape = "foldright" -> 7 [] OTHER -> n
ChainExecs(shape, n) == IF shape = "flatmapped" THEN n + 10 ELSE n
TChain == /\ Is("Chain") /\ Adv /\ Idle /\ UNCHANGED <<prog, executed>>
          /\ Ev.result = ChainWant(Ev.shape, Ev.n)
          /\ Ev.execs = ChainExecs(Ev.shape, Ev.n)
          \* stack depth independent of the recursion depth (the first cells of a list fold are entered through a few more frames
          \* than the later ones: a constant, not a function of n)
          /\ (Ev.n > 0 => Ev.maxd - Ev.mind <= (IF Ev.shape = "foldright" THEN 24 ELSE 2))
\* an Eval extended twice (three times) yields independent values: each extension applies its own function to the shared base
TShare == /\ Is("Share") /\ Adv /\ Idle /\ UNCHANGED <<prog, executed>>
          /\ Ev.rx = 5 + Ev.k + 100 /\ Ev.ry = 5 + Ev.k + 1000 /\ Ev.rz = 5 + Ev.k + 10000
\* run-once also when the single run panics: asking again does not run the deferred computation a second time
TPanicOnce == Is("PanicOnce") /\ Ev.execs = 1 /\ Adv /\ Idle /\ UNCHANGED <<prog, executed>>
TConc  == Is("Conc") /\ Ev.execs = 1 /\ Ev.distinct = 1 /\ Adv /\ Idle /\ UNCHANGED <<prog, executed>>
TEnd   == Is("End") /\ Adv /\ Idle /\ UNCHANGED <<prog, executed>>
TNext  == TReset \/ TExec \/ TResult \/ TChain \/ TShare \/ TPanicOnce \/ TConc \/ TEnd
TSpec  == TInit /\ [][TNext]_tvars

HighWater == TLCSet(1, IF TLCGet(1) < l THEN l ELSE TLCGet(1))
Accepted == /\ PrintT(<<"HIGHWATER", TLCGet(1), Len(Trace)>>)
            /\ TLCGet(1) = Len(Trace) + 1
ASSUME TLCSet(1, 0)
====
