---- MODULE TraceFuture ----
(* Accepts a log of executions of real future expressions under the harness scheduler iff, after every scheduling
   step, the derived future is complete only with FutureSpec!PEval's value over the sources completed so far
   (never earlier, single assignment), and at quiescence it is complete exactly when PEval is not blocked. *)
EXTENDS FutureSpec, Json
Trace == ndJsonDeserialize("trace.ndjson")
VARIABLE l
tvars == <<fvars, l>>
Ev == Trace[l]
Is(e) == l <= Len(Trace) /\ Trace[l].e = e
Adv == l' = l + 1
ToSet(s) == {s[i] : i \in DOMAIN s}
TInit  == l = 1 /\ prog = [k |-> "unit", v |-> <<>>] /\ res = <<>> /\ done = {} /\ derived = Pending
TReset == Is("Init") /\ prog' = Ev.prog /\ res' = Ev.res /\ done' = ToSet(Ev.pre) /\ derived' = Pending /\ Adv
\* a completer thread is about to complete source i
TDone  == Is("Done") /\ done' = done \cup {Ev.i} /\ UNCHANGED <<prog, res, derived>> /\ Adv
Seen(ev) == [st |-> IF ev.ok THEN "ok" ELSE "fail", v |-> ev.v, e |-> ev.err]
\* observation after a scheduling step: Ev.any = some derived future is complete (its value is reported),
\* Ev.c = all of them are (several threads may each have built the expression on the shared sources)
TObs   == /\ Is("Obs") /\ Adv /\ UNCHANGED <<prog, res, done>>
          /\ IF ~Ev.any THEN derived = Pending /\ UNCHANGED derived
             ELSE /\ PEval(prog, done, res) = Seen(Ev)                  \* never earlier, and the right value
                  /\ derived \in {Pending, Seen(Ev)}                    \* single assignment
                  /\ derived' = Seen(Ev)
\* quiescence: no runnable thread or task is left - every derived future is complete iff PEval is settled
TEnd   == /\ Is("End") /\ Adv /\ UNCHANGED <<prog, res, done>>
          /\ IF ~Ev.any THEN derived = Pending /\ PEval(prog, done, res).st = "blocked" /\ UNCHANGED derived
             ELSE /\ Ev.c /\ PEval(prog, done, res) = Seen(Ev) /\ derived \in {Pending, Seen(Ev)} /\ derived' = Seen(Ev)
TNext  == TReset \/ TDone \/ TObs \/ TEnd
TSpec  == TInit /\ [][TNext]_tvars
HighWater == TLCSet(1, IF TLCGet(1) < l THEN l ELSE TLCGet(1))
Accepted == /\ PrintT(<<"HIGHWATER", TLCGet(1), Len(Trace)>>)
            /\ TLCGet(1) = Len(Trace) + 1
ASSUME TLCSet(1, 0)
====
