---- MODULE TraceGenFix ----
EXTENDS GenFix, Json
Trace == ndJsonDeserialize("trace.ndjson")
VARIABLE l
Ev == Trace[l]
Is(e) == l <= Len(Trace) /\ Trace[l].e = e
Adv == l' = l + 1
ToSet(s) == {s[i] : i \in DOMAIN s}
PairSet(s) == {<<s[i][1], s[i][2]>> : i \in DOMAIN s}
TInit  == l = 1 /\ GInit({}, {})
TStart == Is("Init") /\ tree' = PairSet(Ev.files) /\ generated' = ToSet(Ev.generated) /\ written' = {} /\ passes' = 0 /\ Adv
TPass  == Is("Pass") /\ Pass(PairSet(Ev.files), ToSet(Ev.written), ToSet(Ev.failed)) /\ Adv
TEnd   == Is("End") /\ NoOrphans /\ passes >= 1 /\ Adv /\ UNCHANGED gvars
TNext  == TStart \/ TPass \/ TEnd
TSpec  == TInit /\ [][TNext]_<<gvars, l>>
HighWater == TLCSet(1, IF TLCGet(1) < l THEN l ELSE TLCGet(1))
Accepted == /\ PrintT(<<"HIGHWATER", TLCGet(1), Len(Trace)>>)
            /\ TLCGet(1) = Len(Trace) + 1
ASSUME TLCSet(1, 0)
====
