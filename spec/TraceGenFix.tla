---- MODULE TraceGenFix ----
EXTENDS GenFix, Json
Trace == ndJsonDeserialize("trace.ndjson")
VARIABLE l
Ev == Trace[l]
Is(e) == l <= Len(Trace) /\ Trace[l].e = e
Adv == l' = l + 1
ToSet(s) == {s[i] : i \in DOMAIN s}
PairSet(s) == {<<s[i][1], s[i][2]>> : i \in DOMAIN s}
TInit  == l = 1 /\ GInit({}, {})
TStart == Is("Init") /\ tree' = PairSet(Ev.files) /\ generated' = ToSet(Ev.generated) /\ written' = {} /\ passes' = 0 /\ Adv
TPass  == Is("Pass") /\ Pass(PairSet(Ev.files), ToSet(Ev.written), ToSet(Ev.failed)) /\ Adv
TEnd   == Is("End") /\ NoOrphans /\ passes >= 1 /\ Adv /\ UNCHANGED gvars
\* scratch scenarios run with the generators of the working tree:
\*  Shrink  - a directive whose output became empty: regenerating on top of the old output must leave exactly the files (name,
\*            digest) a generation from a clean directory produces - no generated file without a directive that produces it;
\*  Repeat  - the same scratch package generated several times (alternating GOMAXPROCS): every run writes the same bytes.
TShrink == Is("Shrink") /\ PairSet(Ev.ontop) = PairSet(Ev.clean) /\ Adv /\ UNCHANGED gvars
TRepeat == Is("Repeat") /\ Ev.ok /\ Cardinality(ToSet(Ev.digests)) = 1 /\ Adv /\ UNCHANGED gvars
TNext  == TStart \/ TPass \/ TEnd \/ TShrink \/ TRepeat
TSpec  == TInit /\ [][TNext]_<<gvars, l>>
HighWater == TLCSet(1, IF TLCGet(1) < l THEN l ELSE TLCGet(1))
Accepted == /\ PrintT(<<"HIGHWATER", TLCGet(1), Len(Trace)>>)
            /\ TLCGet(1) = Len(Trace) + 1
ASSUME TLCSet(1, 0)
====
