SPECIFICATION TSpec
CONSTANT NoneV = "None"
CONSTANT SomeOf <- TrSome
CONSTRAINT HighWater
POSTCONDITION Accepted
CHECK_DEADLOCK FALSE
