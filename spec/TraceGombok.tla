---- MODULE TraceGombok ----
(* Accepts what the generic driver observed on gombok's real output for scratch packages iff: gombok ran, the package passes
   go vet and go build, every struct has the API Gombok!Required demands, every per-field law held on every sampled value
   (getter = field, WithF changes F only, builder setters, Option setters), every conversion round trip held, nothing
   panicked.  (The JSON laws of @fp.Json structs are C15's: TraceGombokJson.) *)
EXTENDS Gombok, Json
Trace == ndJsonDeserialize("trace.ndjson")
VARIABLE l
Ev == Trace[l]
Is(e) == l <= Len(Trace) /\ Trace[l].e = e
Adv == l' = l + 1 /\ UNCHANGED gbvars
ToSet(s) == {s[i] : i \in DOMAIN s}
TGenerate == Is("Generate") /\ Ev.gombok /\ Ev.build /\ Ev.vet /\ Ev.driver /\ Ev.deterministic /\ Adv
FieldOK(f, anns) ==
  /\ (f.vis = "private" /\ NeedGetter(anns)) => (f.getter /\ f.getterok)
  /\ (f.vis = "private" /\ NeedWith(anns)) => (f.with /\ f.withok)
  /\ (f.vis = "private" /\ NeedBuilder(anns)) => f.bset
  /\ (f.vis = "private" /\ f.opt /\ NeedWith(anns)) => (f.withsome /\ f.withnone)
  /\ (f.vis = "private" /\ f.opt /\ NeedBuilder(anns)) => (f.bsome /\ f.bnone)
TStruct == /\ Is("Struct") /\ Adv
           /\ Required(Ev.fields, ToSet(Ev.anns), Ev.labelled, Ev.json) \subseteq ToSet(Ev.has)
           /\ \A i \in DOMAIN Ev.fields : FieldOK(Ev.fields[i], ToSet(Ev.anns))
           /\ Ev.law.builder /\ Ev.law.tuple /\ Ev.law.unapply /\ Ev.law.map /\ Ev.law.mutable /\ Ev.law.labelled /\ Ev.law.string
           /\ Ev.panics = <<>>
\* one call of the generated API on a real value: the abstract value after it must be what the specification's operator gives
TrSome(v) == "Some(" \o v \o ")"
TOp == /\ Is("Op") /\ Adv
       /\ OpEnabled(Ev.shape, Ev.op, Ev.i)
       /\ Ev.y = Expected(Ev.shape, Ev.op, Ev.x, Ev.i, Ev.v, Ev.z)
TDetail == Is("JsonDetail") /\ Adv
TNext == TGenerate \/ TStruct \/ TOp \/ TDetail
TInit == l = 1 /\ shape = <<>> /\ x = <<>> /\ y = <<>> /\ step = <<"init", 0, 0>>
TSpec == TInit /\ [][TNext]_<<l, gbvars>>
HighWater == TLCSet(1, IF TLCGet(1) < l THEN l ELSE TLCGet(1))
Accepted == /\ PrintT(<<"HIGHWATER", TLCGet(1), Len(Trace)>>)
            /\ TLCGet(1) = Len(Trace) + 1
ASSUME TLCSet(1, 0)
====
