---- MODULE TraceGombokJson ----
(* C15 on gombok output: accepts the driver's observation of an @fp.Json struct iff MarshalJSON / UnmarshalJSON exist,
   Unmarshal(Marshal(x)) = x on every sampled (faithful, non-null) value, the bytes are exactly those encoding/json emits for the
   independently written public twin struct (field names, json tags, omitempty on nilable and Option fields), and hostile
   decoder input never panicked and left the pre-filled target unchanged whenever an error was reported. *)
EXTENDS Gombok, Json
Trace == ndJsonDeserialize("trace.ndjson")
VARIABLE l
Ev == Trace[l]
Is(e) == l <= Len(Trace) /\ Trace[l].e = e
Adv == l' = l + 1 /\ UNCHANGED gbvars
ToSet(s) == {s[i] : i \in DOMAIN s}
TGenerate == Is("Generate") /\ Ev.gombok /\ Ev.build /\ Ev.vet /\ Ev.driver /\ Adv
TStruct == /\ Is("Struct") /\ Adv
           /\ Ev.json => /\ {"MarshalJSON", "UnmarshalJSON"} \subseteq ToSet(Ev.has)
                          /\ Ev.law.json /\ Ev.law.jsontwin /\ Ev.law.jsonfuzz
TrSome(v) == "Some(" \o v \o ")"
TOp == Is("Op") /\ Adv          \* (C07's)
TDetail == Is("JsonDetail") /\ Adv
TNext == TGenerate \/ TStruct \/ TOp \/ TDetail
TInit == l = 1 /\ shape = <<>> /\ x = <<>> /\ y = <<>> /\ step = <<"init", 0, 0>>
TSpec == TInit /\ [][TNext]_<<l, gbvars>>
HighWater == TLCSet(1, IF TLCGet(1) < l THEN l ELSE TLCGet(1))
Accepted == /\ PrintT(<<"HIGHWATER", TLCGet(1), Len(Trace)>>)
            /\ TLCGet(1) = Len(Trace) + 1
ASSUME TLCSet(1, 0)
====
