---- MODULE TraceIter ----
(* Accepts a log of HasNext/Next calls made on real fp.Iterator values (every producer of the
   library, pipelines of combinators, both sides of Duplicate/Span/Partition) iff every answer
   is the one IterSpec prescribes, the pull counter of the instrumented source respects the
   demand bound, and an execution that ran out of its pull budget could not have been answered
   from the visible prefix of its unbounded source. *)
EXTENDS IterSpec, Json

Trace == ndJsonDeserialize("trace.ndjson")
VARIABLES l,
          other,    \* the second side of a two-sided producer: [rem, taken, demand]
          pulled0, lazyCheck
tvars == <<ivars, l, other, pulled0, lazyCheck>>
Ev == Trace[l]
Is(e) == l <= Len(Trace) /\ Trace[l].e = e
Adv == l' = l + 1
NoOther == [rem |-> <<>>, taken |-> 0, demand |-> 0, on |-> FALSE]

TInit  == l = 1 /\ IInit(<<>>, <<>>, FALSE) /\ other = NoOther /\ pulled0 = 0 /\ lazyCheck = FALSE
\* Init event: src, pipe (side L), pipeR (side R, may be empty with two = false), unordered, pulled0, lazy
TReset == /\ Is("Init") /\ IReset(Ev.src, Ev.pipe, Ev.unord)
          /\ other' = IF Ev.two THEN [rem |-> Ref(Ev.pipeR, Ev.src), taken |-> 0, demand |-> 0, on |-> TRUE] ELSE NoOther
          /\ pulled0' = Ev.pulled0 /\ lazyCheck' = Ev.lazy
          \* construction may consume what Drop stages skip and what eager stages need, plus look-ahead
          /\ \/ \E i \in DOMAIN Ev.pipe : EagerStage(Ev.pipe[i])
             \/ Ev.pulled0 <= MaxOf(MaxOf(BuildNeed(Ev.pipe, Ev.src) + Ev.slack0, Need(Ev.pipe, Ev.src, Buffered(Ev.pipe))),
                                     BufNeed(Ev.pipe, Ev.src, Buffered(Ev.pipe))) + 2 * Len(Ev.pipe)
          /\ Adv

PullOK(pulled, dem) ==
  \/ ~lazyCheck
  \/ other.on            \* two-sided: each element is pulled once because the source is single-use; no demand bound
  \/ pulled <= Allowed(pipe, src, pulled0, dem)

\* calls on side L (the only side of an ordinary iterator)
THas  == /\ Is("Has") /\ Ev.side = "L" /\ HasNext(Ev.r) /\ PullOK(Ev.pulled, demand') /\ Adv /\ UNCHANGED <<other, pulled0, lazyCheck>>
\* (a Next that panics because the iterator is exhausted is a call outside the protocol: what it pulled on the way - Zip asks its
\*  first operand before it notices that the second one has ended - is not held against the demand bound, it becomes the baseline)
TNext == /\ Is("Next") /\ Ev.side = "L" /\ Next(Ev.v, Ev.pn) /\ Adv /\ UNCHANGED <<other, lazyCheck>>
         /\ IF Ev.pn THEN pulled0' = MaxOf(pulled0, Ev.pulled)
            ELSE PullOK(Ev.pulled, demand') /\ UNCHANGED pulled0
\* calls on side R: the same two actions on the other cursor
THasR  == /\ Is("Has") /\ Ev.side = "R" /\ other.on /\ Ev.r = (other.rem # <<>>) /\ Adv /\ UNCHANGED <<ivars, other, pulled0, lazyCheck>>
TNextR == /\ Is("Next") /\ Ev.side = "R" /\ other.on /\ Adv /\ UNCHANGED <<ivars, pulled0, lazyCheck>>
          /\ IF other.rem = <<>> THEN Ev.pn /\ UNCHANGED other
             ELSE ~Ev.pn /\ Ev.v = Head(other.rem) /\ other' = [other EXCEPT !.rem = Tail(@), !.taken = @ + 1]
\* the pull budget of an unbounded source ran out: acceptable only if the demand could not be met from the prefix
TBudget == /\ Is("Budget") /\ Ev.inf
           /\ \/ Need(pipe, src, MaxOf(demand, taken + 1) + Buffered(pipe)) = Len(src)
              \* construction itself may need everything: an eager Drop over stages that never deliver on this source
              \/ Ev.during = "Build" /\ BuildNeed(pipe, src) = Len(src)
           /\ Adv /\ UNCHANGED <<ivars, other, pulled0, lazyCheck>>
\* whole-value observations: a terminal operation (ToSeq, Count, Fold, ...) returned this sequence
TWhole == /\ Is("Whole") /\ Adv /\ UNCHANGED <<ivars, other, pulled0, lazyCheck>>
          /\ IF unord THEN IsPerm(Ev.out, rem) ELSE Ev.out = rem
\* the Fold family (Fold, FoldLeft, FoldRight, FoldMap, FoldTry, FoldOption, FoldError of iterator / list / seq): the step
\* function fails on the first element equal to stop; the fold must visit exactly the elements before it, in order, report the
\* failure iff there is such an element, and return (a failing FoldTry / FoldOption has no accumulator: partial)
FirstStop(s, v) == IF \E i \in DOMAIN s : s[i] = v THEN CHOOSE i \in DOMAIN s : s[i] = v /\ \A j \in 1..(i - 1) : s[j] # v ELSE 0
TFoldM == /\ Is("FoldM") /\ Adv /\ UNCHANGED <<ivars, other, pulled0, lazyCheck>>
          /\ \/ unord
             \/ LET k == FirstStop(rem, Ev.stop)
                IN /\ Ev.failed = (k # 0)
                   /\ (~Ev.partial => Ev.out = (IF k = 0 THEN rem ELSE SubSeq(rem, 1, k - 1)))
\* Min / Max under a coarse order (key (v + 100) \div 2): none on the empty output, otherwise the LAST element among those
\* with the extreme key - what the eager fold of seq.Min / seq.Max yields; iterator, list and seq must agree on it
CoarseKey(v) == (v + 100) \div 2
LastWith(s, k) == s[CHOOSE i \in DOMAIN s : CoarseKey(s[i]) = k /\ \A j \in (i + 1)..Len(s) : CoarseKey(s[j]) # k]
TExtreme == /\ Is("Extreme") /\ Adv /\ UNCHANGED <<ivars, other, pulled0, lazyCheck>>
            /\ \/ unord
               \/ IF rem = <<>> THEN Ev.out = <<>>
                  ELSE LET ks == {CoarseKey(rem[i]) : i \in DOMAIN rem}
                           mn == CHOOSE k \in ks : \A k2 \in ks : k <= k2
                           mx == CHOOSE k \in ks : \A k2 \in ks : k >= k2
                       IN Ev.out = <<LastWith(rem, IF Ev.op \in {"iterator.Min", "list.Min", "seq.Min"} THEN mn ELSE mx)>>
TCount == Is("Count") /\ Ev.n = Len(rem) /\ Adv /\ UNCHANGED <<ivars, other, pulled0, lazyCheck>>
\* a lazy List walked cell by cell in any order of Head / IsEmpty / Tail: cell pos holds element pos + 1 of the output
TList  == /\ Is("List") /\ Adv /\ UNCHANGED <<ivars, other, pulled0, lazyCheck>>
          /\ IF Ev.op = "H" THEN (IF Ev.pos < Len(rem) THEN ~Ev.pn /\ Ev.v = rem[Ev.pos + 1] ELSE Ev.pn)
             ELSE Ev.r = (Ev.pos >= Len(rem))
\* memoised cells: no generator index is evaluated twice, no source element pulled twice
TGen   == Is("GenCalls") /\ Ev.max <= 1 /\ Ev.pulled <= Ev.srclen /\ Adv /\ UNCHANGED <<ivars, other, pulled0, lazyCheck>>
TEnd   == Is("End") /\ Adv /\ UNCHANGED <<ivars, other, pulled0, lazyCheck>>

TNext0 == TReset \/ THas \/ TNext \/ THasR \/ TNextR \/ TBudget \/ TWhole \/ TFoldM \/ TExtreme \/ TCount \/ TList \/ TGen \/ TEnd
TSpec == TInit /\ [][TNext0]_tvars

HighWater == TLCSet(1, IF TLCGet(1) < l THEN l ELSE TLCGet(1))
Accepted == /\ PrintT(<<"HIGHWATER", TLCGet(1), Len(Trace)>>)
            /\ TLCGet(1) = Len(Trace) + 1
ASSUME TLCSet(1, 0)
====
