---- MODULE TraceJson ----
(* Accepts the JSON observations of the real library (C15):
   RT    x of type ty was marshalled and the bytes unmarshalled into a zero value: no panic, no marshal error, the bytes parse to
         exactly JsonCodec!Enc(ty, x) (None <-> null, Some(v) <-> encoding of v, member order, omitempty), decoding yields
         JsonCodec!Dec(ty, js), and for every Faithful x that is x again.
   Fuzz  arbitrary bytes were decoded into a pre-filled target (through encoding/json or by calling UnmarshalJSON directly):
         no panic, and - when the target is one of the library's own decoders (own: an Option or Unit at top level; what
         encoding/json does to a plain pointer, slice or struct target before it reports an error is not fp's) - an error
         leaves the target as it was. *)
EXTENDS JsonCodec, Json
Trace == ndJsonDeserialize("trace.ndjson")
VARIABLE l
Ev == Trace[l]
Is(e) == l <= Len(Trace) /\ Trace[l].e = e
TRT == /\ Is("RT") /\ l' = l + 1
       /\ Ev.panicked = "" /\ ~Ev.merr
       /\ Ev.js = Enc(Ev.ty, Ev.x)
       /\ ~Ev.uerr
       /\ Norm(Ev.ty, Ev.back, FALSE) = Norm(Ev.ty, Dec(Ev.ty, Ev.js), FALSE)
       /\ RoundTrip(Ev.ty, Ev.x)
       /\ (Faithful(Ev.ty, Ev.x) => Norm(Ev.ty, Ev.back, FALSE) = Norm(Ev.ty, Ev.x, FALSE))
TFuzz == /\ Is("Fuzz") /\ l' = l + 1
         /\ Ev.panicked = ""
         /\ (Ev.err /\ Ev.own => Ev.after = Ev.before)
TNext == TRT \/ TFuzz
TInit == l = 1
TSpec == TInit /\ [][TNext]_l
HighWater == TLCSet(1, IF TLCGet(1) < l THEN l ELSE TLCGet(1))
Accepted == /\ PrintT(<<"HIGHWATER", TLCGet(1), Len(Trace)>>)
            /\ TLCGet(1) = Len(Trace) + 1
ASSUME TLCSet(1, 0)
====
