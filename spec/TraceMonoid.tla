---- MODULE TraceMonoid ----
(* Accepts a log of what the real Monoid / Semigroup instances and Reduce / FoldMap computed iff: Combine is the meaning of
   Monoid.tla on every pair, Empty is its identity, (a+b)+c = a+(b+c) on every triple of the real instance, Empty is a two-sided
   identity of the real instance, and Reduce / FoldMap of seq, iterator and list equal the left fold of Combine from Empty.
   Endo may compose in either order - consistently - and Dual(Endo) must use the other one. *)
EXTENDS Monoid, Json
Trace == ndJsonDeserialize("trace.ndjson")
VARIABLES l, eord          \* eord: the composition order observed for Endo (0 = not seen yet)
Ev == Trace[l]
Is(e) == l <= Len(Trace) /\ Trace[l].e = e
Adv == l' = l + 1
N == Len(Ev.vals)
V(i) == Ev.vals[i]
\* endomorphisms: operands are names, results are value vectors on the test domain
Composed(f, g, ord) == [t |-> "seq", xs |-> [i \in 1..4 |-> I(IF ord = 1 THEN Fn(f, Fn(g, FnDomain[i])) ELSE Fn(g, Fn(f, FnDomain[i])))], nil |-> FALSE]
EndoOK(ord) == \A i, j \in 1..N : SemEq(Ev.tab[i][j], Composed(V(i).cs, V(j).cs, ord))
IsEndo == Ev.mx \in {"endo", "sg.endo", "dual(endo)"}
AssocReal == \A i, j, k \in 1..N : SemEq(Ev.lhs[i][j][k], Ev.rhs[i][j][k])
TEndo == /\ Is("Monoid") /\ IsEndo /\ Adv /\ AssocReal
         /\ (Ev.hasempty => /\ SemEq(Ev.empty, FnVal(<<105, 100>>))
                            /\ \A i \in 1..N : SemEq(Ev.le[i], FnVal(V(i).cs)) /\ SemEq(Ev.re[i], FnVal(V(i).cs)))
         /\ \E ord \in {1, 2} :
              /\ EndoOK(ord)
              /\ IF Ev.mx = "dual(endo)" THEN eord \in {0, 3 - ord} /\ UNCHANGED eord       \* Dual flips whatever order Endo has
                 ELSE eord \in {0, ord} /\ eord' = ord
TMonoid == /\ Is("Monoid") /\ ~IsEndo /\ Adv /\ UNCHANGED eord
           /\ \A i, j \in 1..N : SemEq(Ev.tab[i][j], Comb(Ev.mx, V(i), V(j)))
           /\ AssocReal
           /\ (Ev.hasempty => /\ SemEq(Ev.empty, Empty(Ev.mx))
                              /\ \A i \in 1..N : SemEq(Ev.le[i], V(i)) /\ SemEq(Ev.re[i], V(i)))
TReduce == /\ Is("Reduce") /\ Adv /\ UNCHANGED eord
           /\ IF Ev.mx \in {"endo", "dual(endo)"} THEN TRUE
              ELSE SemEq(Ev.out, FoldL(Ev.mx, Ev.xs, 1, Empty(Ev.mx)))
TCase == Is("Case") /\ Adv /\ UNCHANGED eord
\* operands and earlier results are values: combining them again changes neither
TAlias == Is("Alias") /\ Adv /\ UNCHANGED eord /\ SemEq(Ev.xbefore, Ev.xafter) /\ SemEq(Ev.rbefore, Ev.rafter)
TNext == (TCase \/ TEndo \/ TMonoid \/ TReduce \/ TAlias) /\ UNCHANGED <<mvars, tvars4>>
TInit == l = 1 /\ eord = 0 /\ vu = 1 /\ va = I(0) /\ vb = I(0) /\ vc = I(0) /\ mx = "sum" /\ ma = I(0) /\ mb = I(0) /\ mc = I(0)
TSpec == TInit /\ [][TNext]_<<l, eord, mvars, tvars4>>
HighWater == TLCSet(1, IF TLCGet(1) < l THEN l ELSE TLCGet(1))
Accepted == /\ PrintT(<<"HIGHWATER", TLCGet(1), Len(Trace)>>)
            /\ TLCGet(1) = Len(Trace) + 1
ASSUME TLCSet(1, 0)
====
