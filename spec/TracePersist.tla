---- MODULE TracePersist ----
(* Accepts an ndjson log of Map/Set histories executed on the real library iff, at every step,
   the new value shows exactly the content the reference computes (Get of every key of the
   universe, Size, IsEmpty, the iterator: every entry exactly once) and every re-observed older
   version - and every value handed out by a builder - still shows the content it had when it was
   created (C03 + C04). *)
EXTENDS Persist, Json

Trace == ndJsonDeserialize("trace.ndjson")
VARIABLE l
tvars == <<pvars, l>>
Ev == Trace[l]
Is(e) == l <= Len(Trace) /\ Trace[l].e = e
Adv == l' = l + 1

\* live: sequence of <<version, obs, size, iterated content, duplicates seen by the iterator>>
LiveOK(L, vs) == \A i \in DOMAIN L :
                    /\ L[i][1] \in DOMAIN vs
                    /\ L[i][2] = vs[L[i][1]] /\ L[i][3] = Size(vs[L[i][1]])
                    /\ L[i][4] = vs[L[i][1]] /\ L[i][5] = 0
Observed == LET c == vals'[Len(vals')] IN
            /\ Ev.dst = Len(vals')
            /\ Ev.obs = c /\ Ev.size = Size(c) /\ Ev.empty = IsEmpty(c)
            /\ Ev.it = c /\ Ev.dups = 0
            /\ LiveOK(Ev.live, vals)

TInit   == l = 1 /\ PInit
TReset  == Is("Init") /\ PReset /\ Adv
TOp     == /\ Is("Op") /\ Ev.op # "build"
           /\ Apply(Ev.op, Ev.kd, Ev.a, Ev.b, Ev.k, Ev.k2, Ev.v, Ev.fn, Ev.ps)
           /\ Observed /\ Adv
TBuild  == Is("Op") /\ Ev.op = "build" /\ Build(Ev.a) /\ Observed /\ Adv
TSubset == Is("Subset") /\ Ev.r = SubsetOf(vals[Ev.a], vals[Ev.b]) /\ Adv /\ UNCHANGED pvars
TNewB   == Is("NewB") /\ NewBuilder(Ev.kd) /\ Adv
TBAdd   == /\ Is("BAdd") /\ Ev.b \in DOMAIN bld /\ Adv
           /\ IF bld[Ev.b].live THEN ~Ev.panicked /\ BAdd(Ev.b, Ev.k, Ev.v)
              ELSE UNCHANGED pvars       \* a builder that has handed out its product: anything but damage
TCheck  == Is("Check") /\ LiveOK(Ev.live, vals) /\ Adv /\ UNCHANGED pvars

TNext == TReset \/ TOp \/ TBuild \/ TSubset \/ TNewB \/ TBAdd \/ TCheck
TSpec == TInit /\ [][TNext]_tvars

HighWater == TLCSet(1, IF TLCGet(1) < l THEN l ELSE TLCGet(1))
Accepted == /\ PrintT(<<"HIGHWATER", TLCGet(1), Len(Trace)>>)
            /\ TLCGet(1) = Len(Trace) + 1
ASSUME TLCSet(1, 0)
====
