SPECIFICATION TSpec
CONSTANTS
  NK = 64
  MaxVal = 3
  MaxVer = 100000
CONSTRAINT HighWater
POSTCONDITION Accepted
CHECK_DEADLOCK FALSE
