SPECIFICATION TSpec
CONSTANTS
  Cbs <- NameCbs
  Comps <- NameComps
CONSTRAINT HighWater
INVARIANTS AtMostOneTrue WinnerReturnsTrue DoneIffWinner ZeroNeverDone AtMostOnce NotBeforeDone FilterRespected ExactlyOnceAtQuiescence NothingListedAfterDone
POSTCONDITION Accepted
CHECK_DEADLOCK FALSE
