---- MODULE TracePromiseAbs ----
(* Accepts an ndjson log of executions of the real fp.Promise (recorded under the cooperative
   scheduler) iff every execution is a behaviour of PromiseAbs.  Logged: Call/Ret of every
   registration and completion, every callback invocation, every observation, quiescence.
   Not logged: the linearization points (RLin / CLin) - TLC searches for them. *)
EXTENDS PromiseAbs, Json, TLC, Integers

Trace == ndJsonDeserialize("trace.ndjson")
\* the harness draws thread and callback names from a fixed universe
NameCbs   == {"p1","p2","p3","p4","p5","p6","p7","p8","r1","r2","r3","r4","r5","r6",
              "r1.n","r2.n","r3.n","r4.n","r5.n","r6.n"}
NameComps == {"k1","k2","k3"}

VARIABLE l
tvars == <<avars, l>>

Ev == Trace[l]
Is(e) == l <= Len(Trace) /\ Trace[l].e = e
Adv == l' = l + 1

TInit == l = 1 /\ AInit(FALSE)

TReset   == Is("Init") /\ AReset(Ev.zero) /\ Adv
TRCall   == Is("RCall") /\ Ev.f \in Filters /\ RCall(Ev.c, Ev.f) /\ Adv
TRRet    == Is("RRet") /\ RRet(Ev.c) /\ Adv
TCCall   == Is("CCall") /\ CCall(Ev.t, Ev.ok) /\ Adv
TCRet    == Is("CRet") /\ CRet(Ev.t, Ev.r) /\ Adv
TDeliver == Is("Deliver") /\ Ev.c \in Cbs /\ Deliver(Ev.c, Ev.w) /\ Adv
TObs     == Is("Obs") /\ ObsOK(Ev.done, Ev.w) /\ Adv /\ UNCHANGED avars
TQuiesce == /\ Is("Quiesce") /\ Quiescent /\ ObsOK(Ev.done, Ev.w)
            /\ (\A t \in Comps : cpc[t] = "ret") => (done \/ zero \/ \A t \in Comps : cpc[t] = "idle")
            /\ Adv /\ UNCHANGED avars
Silent   == /\ l <= Len(Trace)
            /\ (\E c \in Cbs : RLin(c)) \/ (\E t \in Comps : CLin(t))
            /\ UNCHANGED l

TNext == TReset \/ TRCall \/ TRRet \/ TCCall \/ TCRet \/ TDeliver \/ TObs \/ TQuiesce \/ Silent
TSpec == TInit /\ [][TNext]_tvars

\* acceptance: some behaviour explains every line (high-water mark of l in TLC register 1)
HighWater == TLCSet(1, IF TLCGet(1) < l THEN l ELSE TLCGet(1))
Accepted == /\ PrintT(<<"HIGHWATER", TLCGet(1), Len(Trace)>>)
            /\ TLCGet(1) = Len(Trace) + 1
ASSUME TLCSet(1, 0)
====
