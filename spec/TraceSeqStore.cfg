SPECIFICATION TSpec
CONSTANTS
  SMaxVer = 100000
  SMaxLen = 100
  SVals = {1}
CONSTRAINT HighWater
POSTCONDITION Accepted
CHECK_DEADLOCK FALSE
