---- MODULE TraceSeqStore ----
(* Accepts a log of sequence operations executed with the real fp.Seq / iterator / list functions
   iff every result is the eager reference content (SeqSpec) and every earlier value - including
   the raw backing arrays handed to the library - still has the content it was created with. *)
EXTENDS SeqStore, Json

Trace == ndJsonDeserialize("trace.ndjson")
VARIABLE l
tvars == <<svals, l>>
Ev == Trace[l]
Is(e) == l <= Len(Trace) /\ Trace[l].e = e
Adv == l' = l + 1

LiveOK(L, vs) == \A i \in DOMAIN L : L[i][1] \in DOMAIN vs /\ L[i][2] = vs[L[i][1]]

TInit  == l = 1 /\ SInitS
TReset == Is("Init") /\ SReset /\ Adv
TOp    == /\ Is("Op")
          /\ SApply(Ev.op, Ev.a, Ev.b, Ev.n, Ev.x, Ev.p, Ev.f, Ev.lit)
          /\ Ev.dst = Len(svals') /\ Ev.obs = svals'[Len(svals')]
          /\ LiveOK(Ev.live, svals')
          /\ Adv
TCheck == Is("Check") /\ LiveOK(Ev.live, svals) /\ Adv /\ UNCHANGED svals
TNext == TReset \/ TOp \/ TCheck
TSpec == TInit /\ [][TNext]_tvars

HighWater == TLCSet(1, IF TLCGet(1) < l THEN l ELSE TLCGet(1))
Accepted == /\ PrintT(<<"HIGHWATER", TLCGet(1), Len(Trace)>>)
            /\ TLCGet(1) = Len(Trace) + 1
ASSUME TLCSet(1, 0)
====
