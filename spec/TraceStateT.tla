---- MODULE TraceStateT ----
(* Accepts a log of fp.StateT programs run on the real statet package iff every run returned the result and
   state of StateTSpec!Run, executed exactly the primitive steps Run executes, in that order, and invoked its
   recovery handlers with exactly the errors and states Run hands them. *)
EXTENDS StateTSpec, Json
Trace == ndJsonDeserialize("trace.ndjson")
VARIABLES l, prog, s0
tvars == <<l, prog, s0>>
Ev == Trace[l]
Is(e) == l <= Len(Trace) /\ Trace[l].e = e
Adv == l' = l + 1
TInit  == l = 1 /\ prog = Prim("pure", 0, 0, "-", "-") /\ s0 = 0
TReset == Is("Init") /\ prog' = Ev.prog /\ s0' = Ev.s0 /\ Adv
TRun   == /\ Is("Run") /\ Adv /\ UNCHANGED <<prog, s0>>
          /\ LET r == Run(prog, s0) IN
             /\ Ev.ok = r.ok /\ Ev.v = r.v /\ Ev.err = r.e /\ Ev.s = r.s
             /\ Ev.steps = r.tr
             /\ Len(Ev.hs) = Len(r.hs)
             /\ \A i \in DOMAIN r.hs : Ev.hs[i].var = r.hs[i].var /\ Ev.hs[i].s = r.hs[i].s /\ Ev.hs[i].e = r.hs[i].e
\* the same program VALUE run a second time, from state s0 + 1: an independent run of the same description
TRun2  == /\ Is("Run2") /\ Adv /\ UNCHANGED <<prog, s0>>
          /\ LET r == Run(prog, s0 + 1) IN
             /\ Ev.ok = r.ok /\ Ev.v = r.v /\ Ev.err = r.e /\ Ev.s = r.s
             /\ Ev.steps = r.tr
             /\ Len(Ev.hs) = Len(r.hs)
             /\ \A i \in DOMAIN r.hs : Ev.hs[i].var = r.hs[i].var /\ Ev.hs[i].s = r.hs[i].s /\ Ev.hs[i].e = r.hs[i].e
TEnd   == Is("End") /\ Adv /\ UNCHANGED <<prog, s0>>
TNext  == TReset \/ TRun \/ TRun2 \/ TEnd
TSpec  == TInit /\ [][TNext]_tvars
HighWater == TLCSet(1, IF TLCGet(1) < l THEN l ELSE TLCGet(1))
Accepted == /\ PrintT(<<"HIGHWATER", TLCGet(1), Len(Trace)>>)
            /\ TLCGet(1) = Len(Trace) + 1
ASSUME TLCSet(1, 0)
====
