---- MODULE TraceTypeclass ----
(* Accepts a log of what the real Eq / Hashable / Ord / Clone instances and the Sort / Min / Max functions of the
   library computed on universes of abstract values iff it is what Typeclass.tla says they mean. *)
EXTENDS Typeclass, Json
Trace == ndJsonDeserialize("trace.ndjson")
VARIABLE l
Ev == Trace[l]
Is(e) == l <= Len(Trace) /\ Trace[l].e = e
Adv == l' = l + 1
N == Len(Ev.vals)
V(i) == Ev.vals[i]
B2I(x) == IF x THEN 1 ELSE 0

\* C09: Eqv holds exactly when the compared components are pairwise equal (so it is an equivalence)
TEq   == Is("Eq") /\ Adv /\ \A i, j \in 1..N : Ev.m[i][j] = SemEq(V(i), V(j))
\* C09: Hash is deterministic and gives equal hashes to Eqv-equal values (hc = hash equality classes)
THash == Is("Hash") /\ Adv /\ Ev.det /\ \A i, j \in 1..N : SemEq(V(i), V(j)) => Ev.hc[i] = Ev.hc[j]
\* C10: Less is the lexicographic strict total order; Compare/LessEq/Eqv/Min/Max agree with it; Reversed flips; ThenComparing only breaks ties
TOrd  == /\ Is("Ord") /\ Adv
         /\ \A i, j \in 1..N :
              LET lt == SemLess(V(i), V(j))  gt == SemLess(V(j), V(i))  same == SemEq(V(i), V(j)) IN
              /\ Ev.less[i][j] = lt
              /\ Ev.lesseq[i][j] = (lt \/ same)
              /\ Ev.eqv[i][j] = same
              /\ Ev.cmp[i][j] = (IF lt THEN 0 - 1 ELSE IF gt THEN 1 ELSE 0)
              /\ Ev.rev[i][j] = gt
              /\ Ev.thn[i][j] = lt /\ Ev.thn2[i][j] = gt
              \* Min / Max return one of their arguments: the lesser / greater one, either when they are equal
              \* (1 = first argument, 2 = second, 3 = indistinguishable)
              /\ Ev.min[i][j] \in (IF lt THEN {1} ELSE IF gt THEN {2} ELSE {1, 2, 3})
              /\ Ev.max[i][j] \in (IF lt THEN {2} ELSE IF gt THEN {1} ELSE {1, 2, 3})
\* C10: Sort returns an ordered permutation of its input (and leaves the input alone); Min/Max a least/greatest element
Count(s, x) == Cardinality({i \in DOMAIN s : s[i] = x})
PermOf(s, t) == Len(s) = Len(t) /\ \A i \in DOMAIN s : Count(s, s[i]) = Count(t, s[i])
TSort == /\ Is("Sort") /\ Adv
         /\ PermOf(Ev.out, Ev.in)
         /\ \A i \in 1..(Len(Ev.out) - 1) : Ev.out[i][1] <= Ev.out[i + 1][1]
         /\ Ev.inafter = Ev.in
         /\ IF Ev.in = <<>> THEN Ev.min = <<>> /\ Ev.max = <<>>
            ELSE /\ Len(Ev.min) = 1 /\ Len(Ev.max) = 1
                 /\ \E i \in DOMAIN Ev.in : Ev.in[i] = Ev.min[1]
                 /\ \E i \in DOMAIN Ev.in : Ev.in[i] = Ev.max[1]
                 /\ \A i \in DOMAIN Ev.in : Ev.min[1][1] <= Ev.in[i][1] /\ Ev.in[i][1] <= Ev.max[1][1]
\* C18: the clone is equal to the original and shares no mutable storage with it: no common pointer target, slice array
\* or map, and mutating either side through every reachable cell leaves the other side as it was
TClone == /\ Is("Clone") /\ Adv
          /\ SemEq(Ev.before, Ev.val) /\ SemEq(Ev.cl, Ev.val) /\ Ev.shared = 0
          /\ SemEq(Ev.after, Ev.val)
          /\ SemEq(Ev.cl2, Ev.val) /\ SemEq(Ev.after2, Ev.cl2)
\* the same instance cloning the same value in several goroutines at once: every clone equal to the original, no two clones share storage
TCloneConc == Is("CloneConc") /\ Adv /\ Ev.bad = 0 /\ Ev.sharedpairs = 0
\* a sequence compared with a proper prefix of itself (the two share their backing array): equality is decided by content
\* and length, symmetrically, and a hash may only agree when they are equal ... never required to differ
TEqAlias == /\ Is("EqAlias") /\ Adv
            /\ Ev.ab = SemEq(Ev.a, Ev.b) /\ Ev.ba = SemEq(Ev.b, Ev.a)
            /\ (SemEq(Ev.a, Ev.b) => Ev.hasheq)
TCase == Is("Case") /\ Adv
TNext == (TCase \/ TEq \/ THash \/ TOrd \/ TSort \/ TClone \/ TCloneConc \/ TEqAlias) /\ UNCHANGED tvars4
Z == [t |-> "int", n |-> 0]
TInit == l = 1 /\ vu = 1 /\ va = Z /\ vb = Z /\ vc = Z
TSpec == TInit /\ [][TNext]_<<l, tvars4>>
HighWater == TLCSet(1, IF TLCGet(1) < l THEN l ELSE TLCGet(1))
Accepted == /\ PrintT(<<"HIGHWATER", TLCGet(1), Len(Trace)>>)
            /\ TLCGet(1) = Len(Trace) + 1
ASSUME TLCSet(1, 0)
====
