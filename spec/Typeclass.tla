------------------------------- MODULE Typeclass -------------------------------
(* Abstract values and the meaning of the typeclass instances over them (C09, C10, C18).

   An abstract value says what a Go value means and how it is represented:
     [t: "int", n]  [t: "str", cs]  [t: "bytes", cs, nil]  [t: "none"]  [t: "some", v]
     [t: "seq", xs, nil]  (fp.Seq and slices)   [t: "nilptr"]  [t: "ptr", v]  (identity is not part of the meaning)
     [t: "map", ks, vs, nil]  (Go maps and fp.Map, keys ascending)   [t: "tup", xs]  (tuples and hlists)   [t: "wrap", v]
   SemEq is "the compared components are pairwise equal": nil and empty containers are the same value, two
   pointers are equal when their targets are.  SemLess is the lexicographic order the Ord combinators promise:
   None < Some, nil pointer first, shorter prefix first, tuples component by component. *)
EXTENDS Integers, Sequences, FiniteSets, TLC

RECURSIVE SemEq(_, _), SemLess(_, _)
SeqEq(xs, ys) == Len(xs) = Len(ys) /\ \A i \in DOMAIN xs : SemEq(xs[i], ys[i])
SemEq(a, b) ==
  CASE a.t = "int" -> b.t = "int" /\ a.n = b.n
    [] a.t \in {"str", "bytes"} -> b.t = a.t /\ a.cs = b.cs
    [] a.t = "none" -> b.t = "none"
    [] a.t = "some" -> b.t = "some" /\ SemEq(a.v, b.v)
    [] a.t = "seq" -> b.t = "seq" /\ SeqEq(a.xs, b.xs)
    [] a.t = "nilptr" -> b.t = "nilptr"
    [] a.t = "ptr" -> b.t = "ptr" /\ SemEq(a.v, b.v)
    [] a.t = "map" -> b.t = "map" /\ a.ks = b.ks /\ SeqEq(a.vs, b.vs)
    [] a.t = "tup" -> b.t = "tup" /\ SeqEq(a.xs, b.xs)
    [] a.t = "wrap" -> b.t = "wrap" /\ SemEq(a.v, b.v)

\* lexicographic comparison of two sequences of abstract values / of integers
RECURSIVE LexLess(_, _, _), IntLexLess(_, _, _)
LexLess(xs, ys, i) ==
  IF i > Len(xs) THEN i <= Len(ys)                  \* xs is a proper prefix of ys
  ELSE IF i > Len(ys) THEN FALSE
  ELSE IF SemLess(xs[i], ys[i]) THEN TRUE
  ELSE IF SemLess(ys[i], xs[i]) THEN FALSE
  ELSE LexLess(xs, ys, i + 1)
IntLexLess(xs, ys, i) ==
  IF i > Len(xs) THEN i <= Len(ys)
  ELSE IF i > Len(ys) THEN FALSE
  ELSE IF xs[i] < ys[i] THEN TRUE
  ELSE IF ys[i] < xs[i] THEN FALSE
  ELSE IntLexLess(xs, ys, i + 1)
SemLess(a, b) ==
  CASE a.t = "int" -> a.n < b.n
    [] a.t = "str" -> IntLexLess(a.cs, b.cs, 1)
    [] a.t = "none" -> b.t = "some"
    [] a.t = "some" -> b.t = "some" /\ SemLess(a.v, b.v)
    [] a.t = "seq" -> LexLess(a.xs, b.xs, 1)
    [] a.t = "nilptr" -> b.t = "ptr"
    [] a.t = "ptr" -> b.t = "ptr" /\ SemLess(a.v, b.v)
    [] a.t = "tup" -> LexLess(a.xs, b.xs, 1)
    [] a.t = "wrap" -> SemLess(a.v, b.v)
    [] OTHER -> FALSE

\* ---------------- universes for model checking the reference itself ----------------
VInt == {[t |-> "int", n |-> n] : n \in 0..2}
VStr == {[t |-> "str", cs |-> cs] : cs \in {<<>>, <<97>>, <<98>>, <<97, 98>>}}
VOpt(S) == {[t |-> "none"]} \cup {[t |-> "some", v |-> x] : x \in S}
VSeq(S) == {[t |-> "seq", xs |-> xs, nil |-> b] : xs \in UNION {[1..n -> S] : n \in 0..2}, b \in {FALSE}}
           \cup {[t |-> "seq", xs |-> <<>>, nil |-> TRUE]}
VPtr(S) == {[t |-> "nilptr"]} \cup {[t |-> "ptr", v |-> x] : x \in S}
VTup2(S, T) == {[t |-> "tup", xs |-> <<x, y>>] : x \in S, y \in T}
VMap(S) == {[t |-> "map", ks |-> ks, vs |-> vs, nil |-> FALSE] : ks \in {<<>>}, vs \in {<<>>}}
           \cup {[t |-> "map", ks |-> <<1>>, vs |-> <<x>>, nil |-> FALSE] : x \in S}
           \cup {[t |-> "map", ks |-> <<1, 2>>, vs |-> <<x, y>>, nil |-> FALSE] : x \in S, y \in S}
           \cup {[t |-> "map", ks |-> <<>>, vs |-> <<>>, nil |-> TRUE]}
Universes == <<VInt, VStr, VOpt(VInt), VSeq(VInt), VPtr(VInt), VTup2(VInt, VStr), VOpt(VOpt(VInt)), VSeq(VOpt(VInt)), VPtr(VSeq(VInt)),
               VTup2(VSeq(VInt), VOpt(VInt)), VMap(VInt), VSeq(VPtr(VInt))>>
Ordered(i) == i # 11      \* maps have no Ord instance

VARIABLES vu, va, vb, vc
tvars4 == <<vu, va, vb, vc>>
UInit == vu \in DOMAIN Universes /\ va \in Universes[vu] /\ vb \in Universes[vu] /\ vc \in Universes[vu]
USpec == UInit /\ [][UNCHANGED tvars4]_tvars4
\* C09: the meaning of Eq is an equivalence
EqReflexive  == SemEq(va, va)
EqSymmetric  == SemEq(va, vb) = SemEq(vb, va)
EqTransitive == (SemEq(va, vb) /\ SemEq(vb, vc)) => SemEq(va, vc)
\* C10: the meaning of Ord is a strict total order compatible with it
Trichotomy   == Ordered(vu) => ((IF SemLess(va, vb) THEN 1 ELSE 0) + (IF SemLess(vb, va) THEN 1 ELSE 0) + (IF SemEq(va, vb) THEN 1 ELSE 0) = 1)
LessTransitive == Ordered(vu) => ((SemLess(va, vb) /\ SemLess(vb, vc)) => SemLess(va, vc))
LessRespectsEq == Ordered(vu) => ((SemEq(va, vb) /\ SemLess(vb, vc)) => SemLess(va, vc))
=============================================================================
